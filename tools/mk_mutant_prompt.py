#!/usr/bin/env python3
"""tools/mk_mutant_prompt.py <property id> <mutant id> [<focus file or area>]
Creates a scratch worktree /tmp/mut-<mutant id> of /repo and writes the task description for an
independent sub-agent to /tmp/prompts/<mutant id>.txt. The agent sees the property text only
(nothing from /verif)."""
import json, os, subprocess, sys
pid, mid = sys.argv[1], sys.argv[2]
focus = sys.argv[3] if len(sys.argv) > 3 and sys.argv[3] != '-' else None
hard = len(sys.argv) > 4 and sys.argv[4] == 'hard'
props = {json.loads(l)['id']: json.loads(l) for l in open('/verif/properties.jsonl')}
existing = [d.split('-', 1)[1].replace('-', ' ') for d in os.listdir('/verif/seeded') if d.split('-')[0] == pid]
others = sorted(d.split('-', 1)[1].replace('-', ' ') for d in os.listdir('/verif/seeded') if d.split('-')[0] != pid)
repaired = subprocess.run(['git', '-C', '/repo', 'log', '--format=%s', '--grep=^fix:'], capture_output=True, text=True).stdout.strip().splitlines()
wt = f'/tmp/mut-{mid}'
subprocess.run(['git', '-C', '/repo', 'worktree', 'add', '--detach', wt, 'HEAD'], check=True, capture_output=True)
p = props[pid]
text = json.dumps({k: p[k] for k in ('id', 'title', 'statement', 'quantifier', 'why_tests_cant', 'anchors') if k in p}, indent=1)
focus_txt = f"\nFOCUS: make the change in {focus} (read it closely first); changes elsewhere do not count for this task.\n" if focus else ""
hard_txt = """
HARD MODE: make the breakage as hard to reach as you can while it stays a real, demonstrable violation of the property through the public API. Good candidates need a deep state or a rare event: three or more populated levels, versions of one user key straddling a file boundary inside a level, a rare compaction kind (seek-triggered, trivial move, grandparent-overlap output cut, accepted input expansion, manual compaction of a sub-range), a size threshold (e.g. group commits above 128 KiB / 1 MiB, values larger than a block or a memtable), a narrow interleaving window between two specific steps, or a reopen at a specific moment. A change that a random workload of a few dozen operations on a handful of keys would trip over is NOT what is wanted.
""" if hard else ""
prompt = f"""You are working in a scratch git worktree of nerdondon/raindb (a LevelDB-style LSM key-value store in Rust) at {wt}. Work ONLY inside {wt}. Do not read or touch /verif, and do not touch /repo except through this worktree. Never use `git stash` (the stash is shared between worktrees) and never commit. The sandbox is offline: always pass --offline to cargo and set CARGO_TARGET_DIR={wt}/target so build output stays in your worktree.

Here is one semantic property that users of raindb rely on:

{text}

Your task: make ONE small, realistic change to the code under src/ - the kind of slip a maintainer could plausibly make in a refactor or a bug fix (wrong comparison, off-by-one, a step dropped or moved, stale state reused, wrong lock/ordering, an error ignored) - that BREAKS this property, while
 (1) the crate still compiles without new warnings that give it away,
 (2) the existing unit tests still pass: `CARGO_TARGET_DIR={wt}/target cargo test --offline --lib -- --skip os_file_system_tests` (those skipped ones are flaky on their own),
 (3) the breakage needs something specific to manifest (a particular data layout, interleaving, size, crash point or sequence of calls) - not a change that fails on every operation.
Code inside `#[cfg(raindb_verif)]` blocks is verification instrumentation: leave it alone and do not rely on it.
{focus_txt}{hard_txt}
It must be a DIFFERENT mechanism from these earlier changes for the same property: {existing}. Other people have already made the following changes for other properties - do not repeat any of them either (each phrase names one change): {others}. And do not simply revert one of these earlier repairs of the code base: {repaired}. Also do NOT touch these already-used spots: the level-0 widening in VersionSet::pick_compaction, the position of set_prev_sequence_number in DB::apply_changes, is_base_level_for_key, the tombstone/hidden-entry drop rule in the compaction loop.

Then DEMONSTRATE it: write an integration test `tests/demo_{mid.lower()}.rs` that uses the public API (e.g. `DbOptions` with the in-memory filesystem `raindb::fs::InMemoryFileSystem`, small `max_memtable_size`/`max_file_size`) and FAILS with your change and PASSES without it. If the breakage needs a thread interleaving or an I/O fault that a plain test cannot force, wrap the filesystem (the `raindb::fs::FileSystem` trait is public) or, as a last resort, add temporary sleeps/hooks to src/ for the demonstration only - keep those in a separate diff `OUT/demo_hooks.diff` that is NOT part of the change itself. Verify both directions yourself (apply/revert your change with `git diff -- src > x.diff; git apply -R x.diff; ...; git apply x.diff`).

Deliver in {wt}/OUT/ :
 - patch.diff : `git diff -- src` containing only the change itself (no demo hooks, no tests)
 - demo_{mid.lower()}.rs : copy of the demonstration test (leave the original in tests/ too)
 - README.md : what the change is, why it breaks the property, what exactly is needed for it to manifest, and the output of the demonstration with and without the change.
Leave the change applied in the worktree when you finish. Final answer: at most 120 words - the file and function changed, the mechanism, what is needed to manifest, and whether the demo fails with / passes without the change."""
os.makedirs('/tmp/prompts', exist_ok=True)
open(f'/tmp/prompts/{mid}.txt', 'w').write(prompt)
print(f'/tmp/prompts/{mid}.txt')
