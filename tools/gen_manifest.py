#!/usr/bin/env python3
"""Generate /verif/MANIFEST.json from the table below (kept in one place so it stays consistent)."""
import json, subprocess, os

ROOT = os.path.dirname(os.path.dirname(os.path.abspath(__file__)))

HOOK_COMMITS = subprocess.run(["git", "-C", "/repo", "log", "--format=%H %s", "--grep=^verif hook"], capture_output=True, text=True).stdout.strip().splitlines()

TRUSTED = ("Trusted base: shuttle 0.9.3's execution engine; the parking_lot shim (mutual exclusion + condvar wake-ups, nothing stronger than parking_lot); "
           "SimFs's POSIX model of the calls fs_disk.rs makes; tasks are atomic between scheduling points, so intra-skiplist interleavings and weak-memory "
           "effects are not explored; sampling over seeds, not proof.")

CHECKS = {
 "C01": ("hist", "exploration", "Seeded simulation of single-client histories x configurations x background-thread timing on the simulated disk; every read compared with a BTreeMap reference model operation by operation. A clean batch is evidence over the explored runs.", "§3 C01", "deterministic simulation: seeded histories + scheduler-controlled background thread vs reference model"),
 "C02": ("crash", "fault_enumeration", "Crash points = prefixes of the totally ordered mutating-filesystem-operation log of recorded base executions (all prefixes in the thorough tier, biased sample in the quick tier), incl. nested crashes inside recovery; each recovered image is checked against the model of acknowledged writes with the in-flight batch all-or-nothing, then written to, closed and reopened. Complete over fault positions per explored execution; executions are sampled.", "§3 C02", "deterministic simulation + fault injection: crash-point enumeration over a recorded filesystem operation log with recovery simulation per image"),
 "C03": ("hist+conc", "exploration", "Seeded simulation in which snapshots/iterators outlive writes, flushes, manual and background compactions and file deletion; each is re-read against a frozen model clone and get/scan agreement is checked; in concurrent runs what a snapshot / iterator shows per key is checked as a read inside the call that created it (per-key linearizability with view reads), keys written by one client only must show a state that exists between two of its writes, and cursor programs run on live iterators against their own first scan.", "§3 C03", "deterministic simulation: long-lived snapshots/iterators vs frozen reference models under scheduler-controlled compaction"),
 "C04": ("hist", "exploration", "Seeded cursor programs on iterators whose underlying layout is produced by the background thread under scheduler control; model cursor compared after every step.", "§3 C04", "deterministic simulation: iterator cursor programs vs sorted-map cursor while compaction runs under the simulator's scheduler"),
 "C05": ("conc", "exploration", "Seeded concurrent runs (2-5 client tasks + background thread) under Random/Sticky/PCT/Freeze schedulers (a scheduling point follows every mutex release; alignment directives start a client operation exactly when another task has just released the database mutex, sits in an unlocked section or in a filesystem call); the invoke/return history stamped with the global event sequence is checked per key for linearizability (memoised WGL search) including the final state and the values shown by snapshots and iterators (as reads inside the call that created the view).", "§3 C05", "deterministic simulation: seeded schedule search (PCT, Freeze at unlock sites) + per-key linearizability check of the recorded history"),
 "C06": ("conc", "exploration", "Writers apply same-tag batches to row groups while readers take snapshot/iterator reads; a scheduling point after every memtable insert (H4) and around the WAL append lets the scheduler park the writer anywhere inside the batch; any read showing two tags in one group is a violation; where a writer overwrites or deletes only part of its group, the group must show a state that exists between two of that writer's batches.", "§3 C06", "deterministic simulation: seeded schedule search with scheduling points inside batch application + group-consistency oracle"),
 "C07": ("hist+conc", "exploration", "Every flush / compact_range / quiesce of seeded histories is bracketed by full dumps and by gets of sampled keys (latest state + every live snapshot) that must be identical and equal to the model; a close + reopen must not change the contents either; concurrent readers dump while compactions run.", "§3 C07", "deterministic simulation: before/after dumps around flushes and compactions under controlled schedules"),
 "C08": ("iofault", "fault_enumeration", "The filesystem calls of a plan are numbered by a fault-free run; the plan is re-executed with the same scheduler seed once per (call position, mode in {transient, sticky, partial write}); in a third of the faulted runs a second, transient fault hits a drawn call of the recovery that follows; Ok/Err outcomes of writes, gets, full scans and iterator walks and seeks (incl. a seek back to the key at which a step failed) under the armed fault, and the contents after disarm + reopen, are checked against the set of states explainable by the Ok writes plus a subset of the failed ones. Complete over fault positions per explored execution in the thorough tier; executions sampled.", "§3 C08", "deterministic simulation + fault injection: single-failure enumeration over the numbered filesystem-call stream (transient / sticky / partial write)"),
 "C09": ("hist+conc", "exploration", "Any panic of a RainDB thread or client call, deadlock, re-entrant lock acquisition or background error in simulated runs (incl. every descriptor kind; 5% of the runs enumerate transient filesystem faults, after which the filesystem makes progress again) is a violation; shuttle's deadlock detector decides hangs, a step bound with a fair re-run decides livelocks, a wall-clock watchdog decides loops that never yield, a supervising process decides runs that kill their process; a third of the concurrent runs close the database right after the last client returned, aligned with the moment the background thread releases the database mutex.", "§3 C09", "deterministic simulation: deadlock/panic detection over seeded schedules"),
 "C10": ("hist+crash", "exploration", "Structured LSM shape checked at every quiescent point of seeded histories incl. after reopen: sorted, disjoint, exact bounds (tables read back), unique numbers; cross-checked with descriptors; the structural part also at arbitrary moments while writers and the background thread are active (single-client and concurrent runs).", "§3 C10", "deterministic simulation: shape invariant monitored along simulated histories"),
 "C12": ("logsim", "fault_enumeration", "Real LogWriter/LogReader on the simulated disk: complete enumeration of a block-boundary grid x {single writer, clean re-open, writer death between fragments} and truncation at every byte (small logs) or every byte around every boundary (large logs); reader output compared with the list of complete records.", "§3 C12", "fault injection on the simulated disk: truncation-offset and writer-death enumeration over a boundary grid of record lengths"),
 "C15": ("corrupt", "fault_enumeration", "Single-byte mutations (bit flip / zero / random byte) at every or sampled offsets of every table, WAL and manifest file of recorded images, structure-aware rewrites of log record types and of Snappy chunk headers inside compressed table blocks, plus table truncations; one image in eight holds a 70 KiB-1.1 MiB value (multi-frame compressed block or large raw block); each mutated image gets a reopen simulation (gets, forward and backward scans, an iterator cursor program with seeks to present and absent keys and direction reversals) whose every answer must be an error or exactly the model's answer (WAL: model minus whole WAL-resident batches).", "§3 C15", "fault injection on recorded filesystem images: per-offset corruption enumeration with reopen simulation against the reference model"),
 "C16": ("crash", "fault_enumeration", "Every write of recorded base executions is torn at 1 byte / half / all-but-one / seeded lengths; recovery with both reuse settings, further writes crossing and not crossing the torn block, clean close and reopen are checked against the model; a quarter of the recoveries are themselves crashed with a torn write.", "§3 C16", "deterministic simulation + fault injection: torn-write enumeration over a recorded filesystem operation log with recovery simulation per image"),
 "C17": ("lockrace", "exploration", "2-4 tasks race open/hold/close/destroy_database on one path of the real disk filesystem (flock) with every filesystem call a scheduling point under Random/Sticky/PCT/Freeze schedulers (plus alignment of close/open/destroy with points inside a worker thread, openers that wait for a close to begin, owner scans that stop when a read sample asks for a seek compaction (H7/H8), and one injected write-ahead-log write failure before a close); ownership intervals, destroy refusals, owner functionality (reads and burst writes), the final open race, and three structural oracles (no background work after another task was granted the lock; destroy removes database files only while it holds the lock; a DB::open call never unlinks LOCK) are checked; opens with and without create_if_missing.", "§3 C17", "deterministic simulation: seeded schedule search over open/close/destroy races with scheduling points at every filesystem call (real flock)"),
 "C11": ("hist+conc+crash", "exploration", "Directory of the simulated disk compared with the needed file set after every open (also of every crash image), after release + one reclamation opportunity + quiescence, and after transient faults that left no recorded error; NotFound read errors are violations; a crash image that recovers only with removed files put back shows a needed file was removed.", "§3 C11", "deterministic simulation: directory-vs-needed-set invariant along simulated histories"),
}

NOT_APPLICABLE = {
 "C13": "pure function of (sorted entries, max_block_size, query): no schedule, clock, crash or fault in its quantifier; generating entry sets would be input generation, not simulation (DESIGN.md §4)",
 "C14": "pure function of (key set, bits_per_key) and of the block-offset -> filter-index arithmetic: nothing for a simulator to schedule or fail (DESIGN.md §4)",
}

NOT_YET = {}
try:
    props = [json.loads(l)["id"] for l in open(os.path.join(ROOT, "properties.jsonl"))]
except Exception:
    props = []
for p in props:
    if p not in CHECKS and p not in NOT_APPLICABLE:
        NOT_YET[p] = "check not built yet in this session (engine under construction); not claimed"

manifest = {
    "version": 1,
    "setup_cmd": "bin/build",
    "hooks": {
        "guard": "raindb_verif (rustc --cfg)",
        "enable": "sim/.cargo/config.toml passes --cfg raindb_verif; the shadow manifest sim/shadow/Cargo.toml ([lib] path=/repo/src/lib.rs, package name raindb) adds raindb_verif_rt and renames parking_lot to the shim, so /repo/Cargo.toml and /repo/Cargo.lock are untouched",
        "baseline_off_cmd": "cd /repo && cargo nextest run --workspace --no-fail-fast --tool-config-file pb:/w/lib/nextest.toml --profile pb --test-threads 8 --offline",
        "source_commits": [c.split()[0] for c in HOOK_COMMITS],
        "add_only": True,
    },
    "engines": [
        {"name": "hist", "path": "sim/rainsim/src/hist.rs", "serves_properties": ["C01", "C03", "C04", "C07", "C09", "C10", "C11"], "kind_free_text": "1 client task + real background compaction thread on SimFs under SimScheduler; inline reference-model oracles"},
        {"name": "conc", "path": "sim/rainsim/src/conc.rs", "serves_properties": ["C03", "C05", "C06", "C07", "C09", "C11"], "kind_free_text": "2-5 client tasks + background thread; recorded history checked afterwards (linearizability, batch atomicity, snapshot stability, pinned files)"},
        {"name": "crash", "path": "sim/rainsim/src/crash.rs", "serves_properties": ["C02", "C10", "C11", "C16"], "kind_free_text": "recorded base run, then one recovery simulation per crash point / torn write on the materialised image, nested crashes inside recovery"},
        {"name": "iofault", "path": "sim/rainsim/src/iofault.rs", "serves_properties": ["C08", "C09", "C11"], "kind_free_text": "same plan re-executed once per failing filesystem call (transient / sticky / partial write) on SimFs"},
        {"name": "corrupt", "path": "sim/rainsim/src/corrupt.rs", "serves_properties": ["C15"], "kind_free_text": "byte mutations and truncations of recorded images, one reopen simulation each; replay files embed the mutated image"},
        {"name": "lockrace", "path": "sim/rainsim/src/lockrace.rs", "serves_properties": ["C17"], "kind_free_text": "open/close/destroy races on TmpFileSystem (real flock) behind a tracing delegate that yields at every filesystem call"},
        {"name": "logsim", "path": "sim/rainsim/src/logsim.rs", "serves_properties": ["C12"], "kind_free_text": "LogWriter/LogReader via verif_api on SimFs with truncation and writer-death faults"},
    ],
    "checks": [],
    "notes": "All checks: bin/check <ID> <tier> rebuilds the shadow crate from /repo's working tree (cargo, offline) and runs sim/target/release/rainsim, which first re-executes the replay files of all repaired defects (replays/fixed/) and then the seeded batch, as a child of a supervising process (supervise.rs) with a wall-clock watchdog (watchdog.rs). Exit 2 = harness error, never reported as a violation.",
    "not_applicable": [{"property_id": k, "reason": v} for k, v in list(NOT_APPLICABLE.items()) + list(NOT_YET.items())],
}
for pid in sorted(CHECKS):
    engine, level, text, ref, tech = CHECKS[pid]
    manifest["checks"].append({
        "property_id": pid,
        "quick_cmd": f"bin/check {pid} quick",
        "thorough_cmd": f"bin/check {pid} thorough",
        "evidence_file": f"evidence/{pid}.json",
        "replay_cmd_template": "bin/replay {path}",
        "engine": engine,
        "level_claimed": {"category": level, "text": text, "design_ref": ref},
        "level_note": TRUSTED,
        "technique": tech,
    })
json.dump(manifest, open(os.path.join(ROOT, "MANIFEST.json"), "w"), indent=1)
print("wrote MANIFEST.json with", len(manifest["checks"]), "checks;", len(manifest["not_applicable"]), "not claimed")
