#!/usr/bin/env python3
"""Generate /verif/MANIFEST.json from the table below (kept in one place so it stays consistent)."""
import json, subprocess, os

ROOT = os.path.dirname(os.path.dirname(os.path.abspath(__file__)))

HOOK_COMMITS = subprocess.run(["git", "-C", "/repo", "log", "--format=%H %s", "--grep=^verif hook"], capture_output=True, text=True).stdout.strip().splitlines()

TRUSTED = ("Trusted base: shuttle 0.9.3's execution engine; the parking_lot shim (mutual exclusion + condvar wake-ups, nothing stronger than parking_lot); "
           "SimFs's POSIX model of the calls fs_disk.rs makes; tasks are atomic between scheduling points, so intra-skiplist interleavings and weak-memory "
           "effects are not explored; sampling over seeds, not proof.")

CHECKS = {
 "C01": ("hist", "exploration", "Seeded simulation of single-client histories x configurations x background-thread timing on the simulated disk; every read compared with a BTreeMap reference model operation by operation. A clean batch is evidence over the explored runs.", "§3 C01", "deterministic simulation: seeded histories + scheduler-controlled background thread vs reference model"),
 "C03": ("hist", "exploration", "Seeded simulation in which snapshots/iterators outlive writes, flushes, manual and background compactions and file deletion; each is re-read against a frozen model clone and get/scan agreement is checked.", "§3 C03", "deterministic simulation: long-lived snapshots/iterators vs frozen reference models under scheduler-controlled compaction"),
 "C04": ("hist", "exploration", "Seeded cursor programs on iterators whose underlying layout is produced by the background thread under scheduler control; model cursor compared after every step.", "§3 C04", "deterministic simulation: iterator cursor programs vs sorted-map cursor while compaction runs under the simulator's scheduler"),
 "C07": ("hist", "exploration", "Every flush / compact_range / quiesce of seeded histories is bracketed by full dumps (latest + live snapshots) that must be identical and equal to the model.", "§3 C07", "deterministic simulation: before/after dumps around flushes and compactions under controlled schedules"),
 "C09": ("hist", "exploration", "Any panic of a RainDB thread or client call, deadlock, re-entrant lock acquisition or background error in fault-free simulated runs (incl. every descriptor kind) is a violation; shuttle's deadlock detector decides hangs.", "§3 C09", "deterministic simulation: deadlock/panic detection over seeded schedules"),
 "C10": ("hist", "exploration", "Structured LSM shape checked at every quiescent point of seeded histories incl. after reopen: sorted, disjoint, exact bounds (tables read back), unique numbers; cross-checked with descriptors.", "§3 C10", "deterministic simulation: shape invariant monitored along simulated histories"),
 "C11": ("hist", "exploration", "Directory of the simulated disk compared with the needed file set after every open and after release + one reclamation opportunity + quiescence; NotFound read errors are violations.", "§3 C11", "deterministic simulation: directory-vs-needed-set invariant along simulated histories"),
}

NOT_APPLICABLE = {
 "C13": "pure function of (sorted entries, max_block_size, query): no schedule, clock, crash or fault in its quantifier; generating entry sets would be input generation, not simulation (DESIGN.md §4)",
 "C14": "pure function of (key set, bits_per_key) and of the block-offset -> filter-index arithmetic: nothing for a simulator to schedule or fail (DESIGN.md §4)",
}

NOT_YET = {}
try:
    props = [json.loads(l)["id"] for l in open(os.path.join(ROOT, "properties.jsonl"))]
except Exception:
    props = []
for p in props:
    if p not in CHECKS and p not in NOT_APPLICABLE:
        NOT_YET[p] = "check not built yet in this session (engine under construction); not claimed"

manifest = {
    "version": 1,
    "setup_cmd": "bin/build",
    "hooks": {
        "guard": "raindb_verif (rustc --cfg)",
        "enable": "sim/.cargo/config.toml passes --cfg raindb_verif; the shadow manifest sim/shadow/Cargo.toml ([lib] path=/repo/src/lib.rs, package name raindb) adds raindb_verif_rt and renames parking_lot to the shim, so /repo/Cargo.toml and /repo/Cargo.lock are untouched",
        "baseline_off_cmd": "cd /repo && cargo nextest run --workspace --no-fail-fast --tool-config-file pb:/w/lib/nextest.toml --profile pb --test-threads 8 --offline",
        "source_commits": [c.split()[0] for c in HOOK_COMMITS],
        "add_only": True,
    },
    "engines": [
        {"name": "hist", "path": "sim/rainsim/src/hist.rs", "serves_properties": ["C01", "C03", "C04", "C07", "C09", "C10", "C11"], "kind_free_text": "1 client task + real background compaction thread on SimFs under SimScheduler; inline reference-model oracles"},
    ],
    "checks": [],
    "notes": "All checks: bin/check <ID> <tier> rebuilds the shadow crate from /repo's working tree (cargo, offline) and runs sim/target/release/rainsim. Exit 2 = harness error, never reported as a violation.",
    "not_applicable": [{"property_id": k, "reason": v} for k, v in list(NOT_APPLICABLE.items()) + list(NOT_YET.items())],
}
for pid in sorted(CHECKS):
    engine, level, text, ref, tech = CHECKS[pid]
    manifest["checks"].append({
        "property_id": pid,
        "quick_cmd": f"bin/check {pid} quick",
        "thorough_cmd": f"bin/check {pid} thorough",
        "evidence_file": f"evidence/{pid}.json",
        "replay_cmd_template": "bin/replay {path}",
        "engine": engine,
        "level_claimed": {"category": level, "text": text, "design_ref": ref},
        "level_note": TRUSTED,
        "technique": tech,
    })
json.dump(manifest, open(os.path.join(ROOT, "MANIFEST.json"), "w"), indent=1)
print("wrote MANIFEST.json with", len(manifest["checks"]), "checks;", len(manifest["not_applicable"]), "not claimed")
