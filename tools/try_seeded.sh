#!/bin/bash
# tools/try_seeded.sh <patch.diff> <check id>... : apply a seeded change to /repo, run the given
# checks (quick tier), undo the change straight afterwards.
set -u
PATCH="$1"; shift
cd /repo && git apply "$PATCH" || { echo "patch does not apply"; exit 2; }
for c in "$@"; do
  echo "--- $c"
  /verif/bin/check "$c" quick 2>&1 | grep -E "VIOLATION|KNOWN-FINDING|HARNESS|runs=|what:" | head -6
done
git -C /repo checkout -- .
git -C /repo status --short | head -3
