#!/bin/bash
# tools/try_seeded_iso.sh <patch.diff> <check id>... : like try_seeded.sh, but isolated: the change is
# applied to a scratch worktree of /repo (HEAD) and the checks run from a copy of /verif with its own
# build directory, so neither /repo nor /verif (evidence, replays, build) is touched and work in
# /verif can go on meanwhile. The copy under /tmp/vcopy is kept between calls (incremental builds).
set -u
PATCH="$(readlink -f "$1")"; shift
WT=/tmp/try-wt${ISO_ID:-}; VC=/tmp/vcopy${ISO_ID:-}
if [ ! -d "$WT" ]; then git -C /repo worktree add --detach "$WT" HEAD >/dev/null 2>&1 || exit 2; fi
git -C "$WT" checkout -q --detach "$(git -C /repo rev-parse HEAD)" && git -C "$WT" checkout -q -- . || exit 2
mkdir -p "$VC"
rsync -a --delete --exclude 'sim/target' --exclude 'replays/*.json' --exclude '.git' /verif/ "$VC"/
git -C "$WT" apply "$PATCH" || { echo "patch does not apply"; exit 2; }
for c in "$@"; do
  echo "--- $c"
  RAINDB_SRC="$WT" "$VC/bin/check" "$c" quick 2>&1 | grep -E "VIOLATION|KNOWN-FINDING|HARNESS|runs=|what:" | cut -c1-260 | head -6
done
git -C "$WT" checkout -q -- .
