#!/bin/bash
# tools/keep_seeded.sh <worktree> <seeded id> <property> "<needs>" "<ran>" "<caught by>"
set -eu
WT="$1"; ID="$2"; PROP="$3"; NEEDS="$4"; RAN="$5"; CAUGHT="$6"
D=/verif/seeded/$ID; mkdir -p "$D"
cp "$WT"/OUT/patch.diff "$D"/patch.diff
for f in "$WT"/OUT/demo*.rs "$WT"/OUT/demo_hooks.diff "$WT"/OUT/README.md; do [ -f "$f" ] && cp "$f" "$D"/; done
python3 - "$D" "$PROP" "$NEEDS" "$RAN" "$CAUGHT" <<'PY'
import json,sys
d,prop,needs,ran,caught=sys.argv[1:6]
json.dump({"breaks_property":prop,"needs_to_manifest":needs,"confirmed_by":ran,"caught_by":caught,"source":"independent sub-agent given only the property text and a scratch worktree"},open(d+"/meta.json","w"),indent=1)
PY
echo kept $D
