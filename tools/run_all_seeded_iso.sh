#!/bin/bash
# tools/run_all_seeded_iso.sh <shard> <of> : regression suite for the machinery itself, isolated.
# Meant for `vp run --with-repo -- tools/run_all_seeded_iso.sh 0 2`: works in the snapshot of /verif
# it is started from (own build directory) and applies every seeded change to the snapshot of /repo
# ($VP_RUN_REPO, or a scratch worktree of /repo HEAD when unset), never to /repo itself.
# Shard k of n takes every n-th change. RAINSIM_WORKERS / RAINSIM_WALL are honoured (default 8 / 120:
# half the cores for twice the wall budget, so that two shards can run side by side).
set -u
SHARD="${1:-0}"; OF="${2:-1}"
ROOT="$(cd "$(dirname "$0")/.." && pwd)"
SRC="${VP_RUN_REPO:-}"
if [ -z "$SRC" ]; then SRC=/tmp/seeded-wt-$SHARD; git -C /repo worktree add --detach "$SRC" HEAD >/dev/null 2>&1 || exit 2; fi
export RAINDB_SRC="$SRC" RAINSIM_WORKERS="${RAINSIM_WORKERS:-8}" RAINSIM_WALL="${RAINSIM_WALL:-120}"
ok=0; bad=0; i=0
for d in "$ROOT"/seeded/*/; do
  i=$((i+1)); [ $((i % OF)) = "$SHARD" ] || continue
  id=$(basename "$d")
  prop=$(python3 -c "import json;print(json.load(open('$d/meta.json'))['breaks_property'])")
  tier=$(python3 -c "import json;print(json.load(open('$d/meta.json')).get('tier','quick'))")
  also=$(python3 -c "import json;print(' '.join(json.load(open('$d/meta.json')).get('check_with',[])))")
  if [ "$tier" = missed ]; then echo "KNOWN-MISS $id"; continue; fi
  if ! git -C "$SRC" apply --check "$d/patch.diff" 2>/dev/null; then echo "SKIP $id (patch no longer applies)"; continue; fi
  git -C "$SRC" apply "$d/patch.diff"
  caught=""
  for p in $prop $also; do
    out=$("$ROOT/bin/check" "$p" "$tier" 2>&1); rc=$?
    runs=$(echo "$out" | grep -oE "runs=[0-9]+" | head -1)
    if [ $rc = 1 ] && echo "$out" | grep -q "^VIOLATION property=$p"; then caught="$p ($runs)"; break; fi
  done
  git -C "$SRC" checkout -q -- .
  if [ -n "$caught" ]; then echo "CAUGHT $id by $caught"; ok=$((ok+1)); else echo "MISSED $id by $prop $also (exit $rc, $runs)"; bad=$((bad+1)); fi
  rm -f "$ROOT"/replays/*.json
done
echo "shard $SHARD/$OF: $ok caught, $bad missed"
