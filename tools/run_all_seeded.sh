#!/bin/bash
# tools/run_all_seeded.sh : regression suite for the machinery itself. Every seeded change under
# seeded/<id>/ is applied to /repo, the check of the property it breaks (quick tier unless meta.json says otherwise) must report a
# violation (exit 1), and the change is reverted straight afterwards.
set -u
ROOT="$(cd "$(dirname "$0")/.." && pwd)"
ok=0; bad=0
for d in "$ROOT"/seeded/*/; do
  id=$(basename "$d")
  prop=$(python3 -c "import json;print(json.load(open('$d/meta.json'))['breaks_property'])")
  if ! git -C /repo apply --check "$d/patch.diff" 2>/dev/null; then echo "SKIP $id (patch no longer applies to the current tree)"; continue; fi
  git -C /repo apply "$d/patch.diff"
  tier=$(python3 -c "import json;print(json.load(open('$d/meta.json')).get('tier','quick'))")
  if [ "$tier" = missed ]; then echo "KNOWN-MISS $id (recorded as not caught, see its meta.json)"; git -C /repo checkout -- .; continue; fi
  out=$("$ROOT/bin/check" "$prop" "$tier" 2>&1); rc=$?
  git -C /repo checkout -- .
  runs=$(echo "$out" | grep -oE "runs=[0-9]+" | head -1)
  if [ $rc = 1 ] && echo "$out" | grep -q "^VIOLATION property=$prop"; then echo "CAUGHT $id by $prop $tier ($runs)"; ok=$((ok+1)); else echo "MISSED $id by $prop (exit $rc, $runs)"; bad=$((bad+1)); fi
  rm -f "$ROOT"/replays/*.json
done
"$ROOT/bin/build" >/dev/null 2>&1
echo "seeded changes: $ok caught, $bad missed"
[ $bad = 0 ]
