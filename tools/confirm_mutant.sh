#!/bin/bash
# tools/confirm_mutant.sh <worktree> <demo test name> : confirm in the scratch worktree that
# (1) the existing lib tests pass with the change, (2) the demo fails with the change,
# (3) the demo passes without it. Prints a summary; does not touch /repo.
set -u
WT="$1"; DEMO="$2"
export CARGO_TARGET_DIR="$WT/target" CARGO_NET_OFFLINE=true
cd "$WT" || exit 2
[ -f OUT/demo_hooks.diff ] && HOOKS=1 || HOOKS=0
git diff -- src > /tmp/confirm_full.diff
echo "== lib tests with the change"
cargo test --offline --lib -- --test-threads 1 2>&1 | grep -E "^test result|FAILED|failed" | head -8
echo "== demo with the change (expect FAIL)"
timeout 600 cargo test --offline --test "$DEMO" 2>&1 | grep -E "^test result|panicked|FAILED|error" | head -5
echo "== demo without the change (expect PASS)"
# (no git stash: the stash is shared between worktrees and other agents may use it)
git diff -- src > "$WT/OUT/.confirm_full.diff"
git apply -R "$WT/OUT/.confirm_full.diff"
if [ "$HOOKS" = 1 ]; then git apply OUT/demo_hooks.diff 2>/dev/null || echo "(demo hooks did not apply on clean tree)"; fi
timeout 600 cargo test --offline --test "$DEMO" 2>&1 | grep -E "^test result|panicked|FAILED|error" | head -5
git checkout -q -- src
git apply "$WT/OUT/.confirm_full.diff"
echo "== restored; src diff lines: $(git diff -- src | wc -l)"
