//! `hist` engine: one client + the real background thread. Every operation is compared with a
//! reference model as it happens (C01, C03, C04, C07), and the LSM shape (C10) and the directory
//! contents (C11) are checked whenever the database is quiescent.

use crate::exec::{Case, RunOutput, Shared};
use crate::plan::{Knobs, Op, Plan};
use crate::simfs::{classify, CallKind, FileClass, SimFs};
use crate::world::*;
use raindb::db::{DatabaseDescriptor, VerifShape};
use raindb::{Batch, RainDBError, RainDbIterator, ReadOptions, Snapshot, WriteOptions, DB};
use raindb_verif_rt as rt;
use std::collections::{BTreeMap, BTreeSet};
use std::sync::Arc;

pub struct IterSlot {
    pub it: Box<dyn RainDbIterator<Key = Vec<u8>, Error = RainDBError>>,
    pub frozen: Vec<(Vec<u8>, Vec<u8>)>,
    /// Model cursor: index into `frozen`, None = invalid.
    pub cursor: Option<usize>,
}

pub struct Client<'a> {
    pub plan: &'a Plan,
    pub fs: Arc<SimFs>,
    pub db: Option<DB>,
    pub knobs: Knobs,
    pub model: Kv,
    pub snaps: BTreeMap<usize, (Snapshot, Kv)>,
    pub iters: BTreeMap<usize, IterSlot>,
    pub out: &'a Shared,
    /// An iterator was closed since the last reclamation opportunity (flush/compaction end or
    /// reopen): files pinned by its version may legitimately still be on disk (C11, lazy
    /// reclamation).
    pub reclaim_pending: bool,
    pub dead: bool,
    /// Set by a reopen: the full scan right before the close equalled the model. A difference
    /// right after the reopen is then the effect of close + recovery (an interrupted compaction, the
    /// flush of the recovered memtable), which C07 forbids as much as C01 does.
    pub matched_before_close: bool,
}

fn with_out<R>(out: &Shared, f: impl FnOnce(&mut RunOutput) -> R) -> R {
    f(&mut out.lock().unwrap())
}

impl<'a> Client<'a> {
    pub fn finding(&self, f: Finding) {
        with_out(self.out, |o| {
            if o.findings.len() < 50 {
                o.findings.push(f);
            }
        });
    }

    fn key(&self, k: usize) -> Vec<u8> {
        self.plan.keys[k % self.plan.keys.len()].clone()
    }

    pub fn open(&mut self, knobs: &Knobs, first: bool) -> bool {
        let opts = options(self.fs.clone(), knobs, true);
        self.knobs = knobs.clone();
        match call("open", || DB::open(opts)) {
            Called::Ok(Ok(db)) => {
                self.db = Some(db);
                self.reclaim_pending = false;
                true
            }
            Called::Ok(Err(e)) => {
                self.finding(Finding::new(
                    &["C01"],
                    if first { "open-failed" } else { "reopen-failed" },
                    &err_signature(&e),
                    format!("DB::open returned {:?}", e),
                    None,
                ));
                self.dead = true;
                false
            }
            Called::Panicked { .. } => {
                self.dead = true;
                false
            }
        }
    }

    pub fn close(&mut self) {
        self.iters.clear();
        if let Some(db) = self.db.as_ref() {
            for (_, (s, _)) in std::mem::take(&mut self.snaps) {
                let _ = call("release_snapshot", || db.release_snapshot(s));
            }
        }
        if let Some(db) = self.db.take() {
            if let Called::Panicked { .. } = call("drop", move || drop(db)) {
                self.dead = true;
            }
        }
    }

    fn write_result(&mut self, what: &str, idx: usize, r: Called<Result<(), RainDBError>>) -> bool {
        match r {
            Called::Ok(Ok(())) => true,
            Called::Ok(Err(e)) => {
                self.finding(Finding::new(
                    &["C01"],
                    "op-error",
                    &format!("{}|{}", what, err_signature(&e)),
                    format!("{} returned {:?} in a fault-free run", what, e),
                    Some(idx),
                ));
                self.dead = true;
                false
            }
            Called::Panicked { .. } => {
                self.dead = true;
                false
            }
        }
    }

    /// Scan at latest + every live snapshot; used to bracket flushes and compactions (C07).
    fn full_state(&mut self, idx: usize) -> Option<Vec<Vec<(Vec<u8>, Vec<u8>)>>> {
        let db = self.db.as_ref()?;
        let mut all = vec![];
        let snaps: Vec<Option<Snapshot>> = std::iter::once(None).chain(self.snaps.values().map(|(s, _)| Some(s.clone()))).collect();
        for s in snaps {
            match call("scan", || scan_forward(db, s)) {
                Called::Ok(Ok(v)) => all.push(v),
                Called::Ok(Err(e)) => {
                    self.scan_error(&["C01"], "scan", e, idx);
                    return None;
                }
                Called::Panicked { .. } => {
                    self.dead = true;
                    return None;
                }
            }
        }
        with_out(self.out, |o| o.stats.scans += all.len() as u64);
        Some(all)
    }

    fn scan_error(&mut self, props: &[&str], what: &str, e: ScanError, idx: usize) {
        match e {
            ScanError::Err(e) => {
                let mut props: Vec<&str> = props.to_vec();
                let s = format!("{:?}", e);
                if s.contains("NotFound") && !props.contains(&"C11") {
                    // a read failing with "file not found" means a needed file was deleted
                    props.push("C11");
                }
                self.finding(Finding::new(&props, "read-error", &format!("{}|{}", what, err_signature(&e)), format!("{} failed with {:?} in a fault-free run", what, e), Some(idx)));
            }
            ScanError::Disorder(d) => {
                let mut props: Vec<&str> = props.to_vec();
                if !props.contains(&"C04") {
                    props.push("C04");
                }
                self.finding(Finding::new(&props, "scan-disorder", what, d, Some(idx)));
            }
        }
    }

    /// Run `f` (a flush / compaction / quiesce) bracketed by full dumps.
    fn bracketed(&mut self, idx: usize, what: &str, f: impl FnOnce(&DB)) {
        if self.db.is_none() {
            return;
        }
        let before = self.full_state(idx);
        if self.dead {
            return;
        }
        {
            let db = self.db.as_ref().unwrap();
            if let Called::Panicked { .. } = call(what, || f(db)) {
                self.dead = true;
                return;
            }
        }
        let after = self.full_state(idx);
        if self.dead {
            return;
        }
        with_out(self.out, |o| o.stats.bracket_checks += 1);
        if let (Some(b), Some(a)) = (before, after) {
            for (i, (sb, sa)) in b.iter().zip(a.iter()).enumerate() {
                if sb != sa {
                    let want: Kv = sb.iter().cloned().collect();
                    let d = diff_kv(sa, &want).unwrap_or_else(|| "order differs".into());
                    let at = if i == 0 { "latest state".to_string() } else { format!("live snapshot #{}", i) };
                    let props: &[&str] = if i == 0 { &["C07"] } else { &["C07", "C03"] };
                    self.finding(Finding::new(props, "contents-changed", what, format!("contents at {} differ before/after {}: {}", at, what, d), Some(idx)));
                    break;
                }
            }
            // the same through the point-lookup path: gets of a few keys at the latest state and at
            // every live snapshot must still return what the dumps before the operation showed
            // (lookups pick files by binary search and filters, scans do not)
            if !self.dead {
                let snaps: Vec<Option<Snapshot>> = std::iter::once(None).chain(self.snaps.values().map(|(s, _)| Some(s.clone()))).collect();
                let nk = self.plan.keys.len();
                'gets: for (i, s) in snaps.into_iter().enumerate() {
                    let Some(before_dump) = b.get(i) else { break };
                    let before_map: Kv = before_dump.iter().cloned().collect();
                    for j in 0..nk.min(6) {
                        let key = self.plan.keys[(idx * 7 + i * 3 + j * 5) % nk].clone();
                        let r = {
                            let db = self.db.as_ref().unwrap();
                            call("get", || get(db, s.clone(), &key))
                        };
                        with_out(self.out, |o| o.stats.gets += 1);
                        match r {
                            Called::Ok(Ok(v)) => {
                                let want = before_map.get(&key).cloned();
                                if v != want {
                                    let at = if i == 0 { "the latest state".to_string() } else { format!("live snapshot #{}", i) };
                                    let props: &[&str] = if i == 0 { &["C07", "C01"] } else { &["C07", "C03"] };
                                    self.finding(Finding::new(props, "contents-changed", &format!("{}|get", what), format!("get({}) at {} = {} after {}, but the dump taken before it showed {}", show_key(&key), at, show_opt(&v), what, show_opt(&want)), Some(idx)));
                                    break 'gets;
                                }
                            }
                            Called::Ok(Err(_)) => {}
                            Called::Panicked { .. } => {
                                self.dead = true;
                                break 'gets;
                            }
                        }
                    }
                }
            }
            if let Some(d) = diff_kv(&a[0], &self.model) {
                let model_before = diff_kv(&b[0], &self.model).is_none();
                let props: &[&str] = if model_before { &["C01", "C07"] } else { &["C01"] };
                self.finding(Finding::new(props, "dump-mismatch", what, format!("after {}: {}", what, d), Some(idx)));
            }
        }
    }

    pub fn check_all(&mut self, idx: usize, after_open: bool) {
        if self.db.is_none() || self.dead {
            return;
        }
        let keys: Vec<Vec<u8>> = self.plan.keys.clone();
        if after_open {
            // before any read of this client can pin a version
            self.shape_and_dir(idx, true);
            if self.dead {
                return;
            }
        }
        let fwd = {
            let db = self.db.as_ref().unwrap();
            call("scan", || scan_forward(db, None))
        };
        let fwd = match fwd {
            Called::Ok(Ok(v)) => v,
            Called::Ok(Err(e)) => {
                self.scan_error(&["C01"], "scan", e, idx);
                return;
            }
            Called::Panicked { .. } => {
                self.dead = true;
                return;
            }
        };
        if let Some(d) = diff_kv(&fwd, &self.model) {
            if after_open && self.matched_before_close {
                self.finding(Finding::new(&["C01", "C07"], "dump-mismatch", "reopen", format!("contents differ before the close and after the reopen: {}", d), Some(idx)));
            } else {
                self.finding(Finding::new(&["C01"], "dump-mismatch", "scan", format!("forward scan: {}", d), Some(idx)));
            }
        }
        self.matched_before_close = false;
        let bwd = {
            let db = self.db.as_ref().unwrap();
            call("scan-backward", || scan_backward(db, None))
        };
        match bwd {
            Called::Ok(Ok(v)) => {
                if v != fwd {
                    let want: Kv = fwd.iter().cloned().collect();
                    let d = diff_kv(&v, &want).unwrap_or_else(|| "order differs".into());
                    self.finding(Finding::new(&["C04"], "backward-scan-mismatch", "", format!("backward scan disagrees with forward scan: {}", d), Some(idx)));
                }
            }
            Called::Ok(Err(e)) => self.scan_error(&["C04"], "scan-backward", e, idx),
            Called::Panicked { .. } => {
                self.dead = true;
                return;
            }
        }
        with_out(self.out, |o| o.stats.scans += 2);
        let scan_map: Kv = fwd.iter().cloned().collect();
        for k in &keys {
            let r = {
                let db = self.db.as_ref().unwrap();
                call("get", || get(db, None, k))
            };
            with_out(self.out, |o| o.stats.gets += 1);
            match r {
                Called::Ok(Ok(v)) => {
                    let want = self.model.get(k).cloned();
                    if v != want {
                        self.finding(Finding::new(&["C01"], "get-mismatch", "", format!("get({}) = {} but model has {}", show_key(k), show_opt(&v), show_opt(&want)), Some(idx)));
                    }
                    if v != scan_map.get(k).cloned() && v == want {
                        // covered by dump-mismatch above; nothing more to say
                    }
                }
                Called::Ok(Err(e)) => {
                    self.scan_error(&["C01"], "get", ScanError::Err(e), idx);
                    return;
                }
                Called::Panicked { .. } => {
                    self.dead = true;
                    return;
                }
            }
        }
        if !after_open {
            self.shape_and_dir(idx, false);
        }
    }

    /// C10 (shape well formed) and C11 (directory == needed files) at a quiescent moment.
    pub fn shape_and_dir(&mut self, idx: usize, after_open: bool) {
        let Some(db) = self.db.as_ref() else { return };
        // quiesce first: both oracles are stated for quiescent moments
        match call("quiesce", || db.verif_wait_quiescent()) {
            Called::Ok(true) => {}
            Called::Ok(false) => {
                let shape = db.verif_shape();
                self.finding(Finding::new(&["C09"], "bg-error", &shape.bad_state.as_ref().map(err_signature).unwrap_or_default(), format!("background error recorded in a fault-free run: {:?}", shape.bad_state), Some(idx)));
                self.dead = true;
                return;
            }
            Called::Panicked { .. } => {
                self.dead = true;
                return;
            }
        }
        let shape = match call("shape", || db.verif_shape()) {
            Called::Ok(s) => s,
            Called::Panicked { .. } => {
                self.dead = true;
                return;
            }
        };
        let opts = db.verif_options().clone();
        let mut findings = vec![];
        self.fs.set_tag(1);
        let per_level = check_shape(&shape, &mut findings, |n| raindb::verif_api::table_entries(&opts, n));
        self.fs.set_tag(0);
        // cross-check with the public descriptors
        for level in 0..7usize {
            if let Called::Ok(Ok(s)) = call("descriptor", || db.get_descriptor(DatabaseDescriptor::NumFilesAtLevel(level))) {
                if s.trim().parse::<usize>().ok() != Some(per_level[level]) {
                    findings.push(Finding::new(&["C10"], "descriptor-disagrees", "NumFilesAtLevel", format!("NumFilesAtLevel({}) = {:?} but the version has {} files", level, s, per_level[level]), Some(idx)));
                }
            }
        }
        if let Called::Ok(Ok(s)) = call("descriptor", || db.get_descriptor(DatabaseDescriptor::SSTables)) {
            let lines = s.lines().filter(|l| l.contains("(size:")).count();
            if lines != shape.files.len() {
                findings.push(Finding::new(&["C10"], "descriptor-disagrees", "SSTables", format!("SSTables lists {} files but the version has {}", lines, shape.files.len()), Some(idx)));
            }
        }
        with_out(self.out, |o| {
            o.stats.shape_checks += 1;
            o.stats.shapes.push(per_level.to_vec());
            for (l, n) in per_level.iter().enumerate() {
                if *n > 0 && l > o.stats.max_level {
                    o.stats.max_level = l;
                }
            }
            if per_level[0] >= 4 && per_level[1] >= 2 {
                o.stats.probe("l0_ge4_over_l1_ge2");
            }
            if per_level[2..].iter().any(|n| *n >= 2) {
                o.stats.probe("multi_file_level_ge2");
            }
        });
        for mut f in findings {
            f.op_index = Some(idx);
            self.finding(f);
        }

        // C11 right after a successful open: nothing can pin an older version yet.
        if after_open {
            self.dir_compare(idx, &shape, true);
        }
    }

    fn dir_compare(&mut self, idx: usize, shape: &VerifShape, after_open: bool) {
        with_out(self.out, |o| o.stats.dir_checks += 1);
        if let Some(d) = dir_diff(&self.fs, shape) {
            if !d.missing.is_empty() {
                self.finding(Finding::new(&["C11"], "needed-file-missing", &d.missing_classes(), format!("needed files missing from the directory: {:?}", d.missing), Some(idx)));
            }
            if !d.extra.is_empty() {
                self.finding(Finding::new(
                    &["C11"],
                    "obsolete-file-kept",
                    &format!("{}|{}", if after_open { "after-open" } else { "quiescent" }, d.extra_classes()),
                    format!("files on disk that nothing needs ({}): {:?}; needed = {:?}", if after_open { "right after open" } else { "after release + one reclamation opportunity + quiescence" }, d.extra, d.needed),
                    Some(idx),
                ));
            }
        }
    }

    /// C11 "nothing dead kept": RainDB reclaims files only inside remove_obsolete_files (end of a
    /// flush/compaction, and open). Any iterator or in-flight get - including the harness's own
    /// scans - that is alive at that moment pins its version, so the oracle first gives the
    /// database one reclamation opportunity during which this (only) client holds nothing:
    /// forced flush + quiesce, then the directory must equal the needed set.
    pub fn dir_check(&mut self, idx: usize) {
        if self.dead || self.db.is_none() {
            return;
        }
        if !self.iters.is_empty() {
            let pending = {
                let db = self.db.as_ref().unwrap();
                match call("shape", || db.verif_shape()) {
                    Called::Ok(shape) => dir_diff(&self.fs, &shape).map(|d| d.extra.len() as u64).unwrap_or(0),
                    Called::Panicked { .. } => 0,
                }
            };
            with_out(self.out, |o| {
                o.stats.lazy_pending_files += pending;
                o.stats.skipped_ops += 1;
            });
            return;
        }
        let db = self.db.as_ref().unwrap();
        let r = call("flush", || {
            let r = db.verif_flush();
            let q = db.verif_wait_quiescent();
            (r, q)
        });
        match r {
            Called::Ok((Ok(()), true)) => {}
            Called::Ok((r, _)) => {
                self.finding(Finding::new(&["C09"], "bg-error", "", format!("forced flush / quiesce reported {:?} in a fault-free run", r), Some(idx)));
                self.dead = true;
                return;
            }
            Called::Panicked { .. } => {
                self.dead = true;
                return;
            }
        }
        let shape = match call("shape", || db.verif_shape()) {
            Called::Ok(s) => s,
            Called::Panicked { .. } => {
                self.dead = true;
                return;
            }
        };
        self.reclaim_pending = false;
        self.dir_compare(idx, &shape, false);
    }

    /// Non-quiescent sample of the files-per-level vector (the interesting shapes, e.g. >= 4
    /// level-0 files over a multi-file level 1, only exist while compaction is pending).
    fn sample_shape(&mut self) {
        let Some(db) = self.db.as_ref() else { return };
        if let Called::Ok(shape) = call("shape", || db.verif_shape()) {
            let mut per_level = [0usize; 7];
            for f in &shape.files {
                per_level[f.level] += 1;
            }
            // well formed at any moment, also while the background thread is busy
            let mut fs = vec![];
            check_shape_structure(&shape, &mut fs, "while background work may be running");
            with_out(self.out, |o| {
                o.stats.bump("shape_structure_checks_any_time", 1);
                for f in fs {
                    if o.findings.len() < 12 {
                        o.findings.push(f);
                    }
                }
            });
            with_out(self.out, |o| {
                if per_level[0] >= 4 && per_level[1] >= 2 {
                    o.stats.probe("l0_ge4_over_l1_ge2");
                }
                if per_level[0] >= 8 {
                    o.stats.probe("l0_slowdown_reached");
                }
            });
        }
    }

    pub fn step(&mut self, idx: usize, op: &Op) {
        if self.dead || rt::is_poisoned() {
            return;
        }
        if self.db.is_none() {
            return;
        }
        if idx % 8 == 7 {
            self.sample_shape();
        }
        with_out(self.out, |o| {
            o.stats.ops += 1;
            o.hist(idx as u64);
        });
        match op {
            Op::Put { k, v } => {
                let key = self.key(*k);
                let val = v.bytes();
                let r = {
                    let db = self.db.as_ref().unwrap();
                    let (key, val) = (key.clone(), val.clone());
                    call("put", || db.put(wopts(), key, val))
                };
                if self.write_result("put", idx, r) {
                    self.model.insert(key, val);
                }
                with_out(self.out, |o| o.stats.writes += 1);
            }
            Op::Delete { k } => {
                let key = self.key(*k);
                let r = {
                    let db = self.db.as_ref().unwrap();
                    let key = key.clone();
                    call("delete", || db.delete(wopts(), key))
                };
                if self.write_result("delete", idx, r) {
                    self.model.remove(&key);
                }
                with_out(self.out, |o| o.stats.writes += 1);
            }
            Op::Batch { items } => {
                let mut batch = Batch::new();
                for (k, v) in items {
                    match v {
                        Some(v) => {
                            batch.add_put(self.key(*k), v.bytes());
                        }
                        None => {
                            batch.add_delete(self.key(*k));
                        }
                    }
                }
                let r = {
                    let db = self.db.as_ref().unwrap();
                    call("apply", || db.apply(wopts(), batch))
                };
                if self.write_result("apply", idx, r) {
                    for (k, v) in items {
                        match v {
                            Some(v) => {
                                self.model.insert(self.key(*k), v.bytes());
                            }
                            None => {
                                self.model.remove(&self.key(*k));
                            }
                        }
                    }
                }
                with_out(self.out, |o| o.stats.writes += 1);
            }
            Op::Align { mask, nth } => rt::align_request(*mask, *nth),
            Op::Get { k } => self.do_get(idx, *k, 1),
            Op::GetMany { k, n } => self.do_get(idx, *k, *n),
            Op::Snap { slot } => {
                if self.snaps.contains_key(slot) {
                    return;
                }
                let db = self.db.as_ref().unwrap();
                match call("get_snapshot", || db.get_snapshot()) {
                    Called::Ok(s) => {
                        self.snaps.insert(*slot, (s, self.model.clone()));
                    }
                    Called::Panicked { .. } => self.dead = true,
                }
            }
            Op::Release { slot } => {
                if let Some((s, _)) = self.snaps.remove(slot) {
                    let db = self.db.as_ref().unwrap();
                    if let Called::Panicked { .. } = call("release_snapshot", || db.release_snapshot(s)) {
                        self.dead = true;
                    }
                }
            }
            Op::GetSnap { slot, k } => {
                let Some((s, frozen)) = self.snaps.get(slot).map(|(s, f)| (s.clone(), f.clone())) else {
                    with_out(self.out, |o| o.stats.skipped_ops += 1);
                    return;
                };
                let key = self.key(*k);
                let r = {
                    let db = self.db.as_ref().unwrap();
                    call("get@snapshot", || get(db, Some(s), &key))
                };
                with_out(self.out, |o| o.stats.snap_reads += 1);
                match r {
                    Called::Ok(Ok(v)) => {
                        let want = frozen.get(&key).cloned();
                        if v != want {
                            self.finding(Finding::new(&["C03"], "snapshot-get-mismatch", "", format!("get({}) at snapshot slot {} = {} but the state at its creation had {}", show_key(&key), slot, show_opt(&v), show_opt(&want)), Some(idx)));
                        }
                    }
                    Called::Ok(Err(e)) => self.scan_error(&["C03"], "get@snapshot", ScanError::Err(e), idx),
                    Called::Panicked { .. } => self.dead = true,
                }
            }
            Op::SnapDump { slot } => self.snap_dump(idx, *slot),
            Op::IterOpen { slot, snap } => {
                if self.iters.contains_key(slot) {
                    return;
                }
                let (snapshot, frozen): (Option<Snapshot>, Kv) = match snap {
                    Some(s) => match self.snaps.get(s) {
                        Some((sn, f)) => (Some(sn.clone()), f.clone()),
                        None => (None, self.model.clone()),
                    },
                    None => (None, self.model.clone()),
                };
                let db = self.db.as_ref().unwrap();
                match call("new_iterator", || db.new_iterator(ReadOptions { fill_cache: fill_cache(), snapshot })) {
                    Called::Ok(Ok(it)) => {
                        let it: Box<dyn RainDbIterator<Key = Vec<u8>, Error = RainDBError>> = Box::new(it);
                        self.iters.insert(*slot, IterSlot { it, frozen: frozen.into_iter().collect(), cursor: None });
                    }
                    Called::Ok(Err(e)) => self.scan_error(&["C03"], "new_iterator", ScanError::Err(e), idx),
                    Called::Panicked { .. } => self.dead = true,
                }
            }
            Op::IterClose { slot } => {
                if let Some(s) = self.iters.remove(slot) {
                    if let Called::Panicked { .. } = call("iterator-drop", move || drop(s)) {
                        self.dead = true;
                    }
                    self.reclaim_pending = true;
                }
            }
            Op::IterSeek { .. } | Op::IterFirst { .. } | Op::IterLast { .. } | Op::IterNext { .. } | Op::IterPrev { .. } => self.iter_step(idx, op),
            Op::IterDump { slot } => self.iter_dump(idx, *slot),
            Op::CompactRange { start, end } => {
                let (s, e) = (start.clone(), end.clone());
                self.bracketed(idx, "compact_range", move |db| db.compact_range(s.as_deref()..e.as_deref()));
                with_out(self.out, |o| o.stats.compact_ranges += 1);
                if self.iters.is_empty() {
                    self.reclaim_pending = false;
                }
            }
            Op::Flush => {
                let err: std::cell::RefCell<Option<RainDBError>> = std::cell::RefCell::new(None);
                self.bracketed(idx, "flush", |db| {
                    if let Err(e) = db.verif_flush() {
                        *err.borrow_mut() = Some(e);
                    }
                    db.verif_wait_quiescent();
                });
                if let Some(e) = err.into_inner() {
                    self.finding(Finding::new(&["C09"], "bg-error", &err_signature(&e), format!("forced flush reported {:?} in a fault-free run", e), Some(idx)));
                    self.dead = true;
                }
                with_out(self.out, |o| o.stats.flushes += 1);
                if self.iters.is_empty() {
                    self.reclaim_pending = false;
                }
            }
            Op::Quiesce => {
                self.bracketed(idx, "quiesce", |db| {
                    db.verif_wait_quiescent();
                });
            }
            Op::Reopen { idx: open_idx } => {
                self.matched_before_close = false;
                if let Some(db) = self.db.as_ref() {
                    if let Called::Ok(Ok(v)) = call("scan", || scan_forward(db, None)) {
                        self.matched_before_close = diff_kv(&v, &self.model).is_none();
                    }
                }
                self.close();
                if self.dead {
                    return;
                }
                let knobs = self.plan.opens[*open_idx % self.plan.opens.len()].clone();
                with_out(self.out, |o| o.stats.reopens += 1);
                if self.open(&knobs, false) {
                    self.check_all(idx, true);
                }
            }
            Op::CheckAll => self.check_all(idx, false),
            Op::DirCheck => self.dir_check(idx),
            Op::Descriptor { kind } => {
                let db = self.db.as_ref().unwrap();
                let d = match kind % 9 {
                    7 => DatabaseDescriptor::Stats,
                    8 => DatabaseDescriptor::SSTables,
                    l => DatabaseDescriptor::NumFilesAtLevel(l as usize),
                };
                if let Called::Panicked { .. } = call("get_descriptor", || db.get_descriptor(d)) {
                    self.dead = true;
                }
            }
        }
    }

    fn do_get(&mut self, idx: usize, k: usize, n: u32) {
        let key = self.key(k);
        for _ in 0..n {
            let r = {
                let db = self.db.as_ref().unwrap();
                call("get", || get(db, None, &key))
            };
            with_out(self.out, |o| o.stats.gets += 1);
            match r {
                Called::Ok(Ok(v)) => {
                    let want = self.model.get(&key).cloned();
                    with_out(self.out, |o| o.hist(v.as_ref().map(|v| v.len() as u64 + 1).unwrap_or(0)));
                    if v != want {
                        self.finding(Finding::new(&["C01"], "get-mismatch", "", format!("get({}) = {} but the latest committed write is {}", show_key(&key), show_opt(&v), show_opt(&want)), Some(idx)));
                        return;
                    }
                }
                Called::Ok(Err(e)) => {
                    self.scan_error(&["C01"], "get", ScanError::Err(e), idx);
                    return;
                }
                Called::Panicked { .. } => {
                    self.dead = true;
                    return;
                }
            }
        }
    }

    fn snap_dump(&mut self, idx: usize, slot: usize) {
        let Some((s, frozen)) = self.snaps.get(&slot).map(|(s, f)| (s.clone(), f.clone())) else {
            with_out(self.out, |o| o.stats.skipped_ops += 1);
            return;
        };
        let db = self.db.as_ref().unwrap();
        let fwd = call("scan@snapshot", || scan_forward(db, Some(s.clone())));
        let bwd = call("scan-backward@snapshot", || scan_backward(db, Some(s.clone())));
        with_out(self.out, |o| o.stats.snap_reads += 2);
        let mut scan_map: Option<Kv> = None;
        match fwd {
            Called::Ok(Ok(v)) => {
                if let Some(d) = diff_kv(&v, &frozen) {
                    self.finding(Finding::new(&["C03"], "snapshot-scan-mismatch", "", format!("scan at snapshot slot {}: {}", slot, d), Some(idx)));
                }
                scan_map = Some(v.into_iter().collect());
            }
            Called::Ok(Err(e)) => self.scan_error(&["C03"], "scan@snapshot", e, idx),
            Called::Panicked { .. } => {
                self.dead = true;
                return;
            }
        }
        match bwd {
            Called::Ok(Ok(v)) => {
                if let Some(d) = diff_kv(&v, &frozen) {
                    self.finding(Finding::new(&["C03"], "snapshot-scan-mismatch", "backward", format!("backward scan at snapshot slot {}: {}", slot, d), Some(idx)));
                }
            }
            Called::Ok(Err(e)) => self.scan_error(&["C03"], "scan-backward@snapshot", e, idx),
            Called::Panicked { .. } => {
                self.dead = true;
                return;
            }
        }
        let keys = self.plan.keys.clone();
        for k in &keys {
            let db = self.db.as_ref().unwrap();
            let r = call("get@snapshot", || get(db, Some(s.clone()), k));
            with_out(self.out, |o| o.stats.snap_reads += 1);
            match r {
                Called::Ok(Ok(v)) => {
                    let want = frozen.get(k).cloned();
                    if v != want {
                        self.finding(Finding::new(&["C03"], "snapshot-get-mismatch", "", format!("get({}) at snapshot slot {} = {} but the state at its creation had {}", show_key(k), slot, show_opt(&v), show_opt(&want)), Some(idx)));
                        return;
                    }
                    if let Some(m) = &scan_map {
                        if m.get(k).cloned() != v {
                            self.finding(Finding::new(&["C03"], "get-scan-disagree", "", format!("at snapshot slot {} get({}) = {} but the scan shows {}", slot, show_key(k), show_opt(&v), show_opt(&m.get(k).cloned())), Some(idx)));
                            return;
                        }
                    }
                }
                Called::Ok(Err(e)) => {
                    self.scan_error(&["C03"], "get@snapshot", ScanError::Err(e), idx);
                    return;
                }
                Called::Panicked { .. } => {
                    self.dead = true;
                    return;
                }
            }
        }
    }

    fn iter_step(&mut self, idx: usize, op: &Op) {
        let slot = match op {
            Op::IterSeek { slot, .. } | Op::IterFirst { slot } | Op::IterLast { slot } | Op::IterNext { slot } | Op::IterPrev { slot } => *slot,
            _ => return,
        };
        let Some(s) = self.iters.get_mut(&slot) else {
            with_out(self.out, |o| o.stats.skipped_ops += 1);
            return;
        };
        // next/prev have the documented precondition that the iterator is valid
        if matches!(op, Op::IterNext { .. } | Op::IterPrev { .. }) && (s.cursor.is_none() || !s.it.is_valid()) {
            with_out(self.out, |o| o.stats.skipped_ops += 1);
            return;
        }
        let new_cursor: Option<usize> = match op {
            Op::IterSeek { key, .. } => {
                let p = s.frozen.partition_point(|(k, _)| k < key);
                if p < s.frozen.len() {
                    Some(p)
                } else {
                    None
                }
            }
            Op::IterFirst { .. } => {
                if s.frozen.is_empty() {
                    None
                } else {
                    Some(0)
                }
            }
            Op::IterLast { .. } => s.frozen.len().checked_sub(1),
            Op::IterNext { .. } => s.cursor.and_then(|c| if c + 1 < s.frozen.len() { Some(c + 1) } else { None }),
            Op::IterPrev { .. } => s.cursor.and_then(|c| c.checked_sub(1)),
            _ => None,
        };
        let it = &mut s.it;
        let r = call("iterator-step", || -> Result<(), RainDBError> {
            match op {
                Op::IterSeek { key, .. } => it.seek(key)?,
                Op::IterFirst { .. } => it.seek_to_first()?,
                Op::IterLast { .. } => it.seek_to_last()?,
                Op::IterNext { .. } => {
                    it.next();
                }
                Op::IterPrev { .. } => {
                    it.prev();
                }
                _ => {}
            }
            match it.status() {
                Some(e) if !it.is_valid() => Err(e),
                _ => Ok(()),
            }
        });
        with_out(self.out, |o| o.stats.iter_steps += 1);
        match r {
            Called::Ok(Ok(())) => {}
            Called::Ok(Err(e)) => {
                self.scan_error(&["C04"], "iterator-step", ScanError::Err(e), idx);
                self.iters.remove(&slot);
                return;
            }
            Called::Panicked { .. } => {
                self.dead = true;
                return;
            }
        }
        let s = self.iters.get_mut(&slot).unwrap();
        s.cursor = new_cursor;
        let valid = s.it.is_valid();
        let got: Option<(Vec<u8>, Vec<u8>)> = if valid { s.it.current().map(|(k, v)| (k.clone(), v.clone())) } else { None };
        let want: Option<(Vec<u8>, Vec<u8>)> = new_cursor.map(|c| s.frozen[c].clone());
        if got != want {
            let show = |x: &Option<(Vec<u8>, Vec<u8>)>| match x {
                Some((k, v)) => format!("{} = {}", show_key(k), show_val(v)),
                None => "<invalid>".to_string(),
            };
            let opname = match op {
                Op::IterSeek { key, .. } => format!("seek({})", show_key(key)),
                Op::IterFirst { .. } => "seek_to_first".into(),
                Op::IterLast { .. } => "seek_to_last".into(),
                Op::IterNext { .. } => "next".into(),
                Op::IterPrev { .. } => "prev".into(),
                _ => String::new(),
            };
            let kind = match op {
                Op::IterSeek { .. } => "seek",
                Op::IterFirst { .. } => "seek_to_first",
                Op::IterLast { .. } => "seek_to_last",
                Op::IterNext { .. } => "next",
                _ => "prev",
            };
            let f = Finding::new(&["C04"], "cursor-mismatch", kind, format!("iterator slot {} after {}: positioned at {} but a sorted map of the visible pairs is at {}", slot, opname, show(&got), show(&want)), Some(idx));
            self.iters.remove(&slot);
            self.finding(f);
        }
    }

    fn iter_dump(&mut self, idx: usize, slot: usize) {
        let Some(s) = self.iters.get_mut(&slot) else {
            with_out(self.out, |o| o.stats.skipped_ops += 1);
            return;
        };
        let it = &mut s.it;
        let r = call("iterator-dump", || -> Result<(Vec<(Vec<u8>, Vec<u8>)>, Vec<(Vec<u8>, Vec<u8>)>), RainDBError> {
            let mut fwd = vec![];
            it.seek_to_first()?;
            while it.is_valid() {
                let (k, v) = it.current().unwrap();
                fwd.push((k.clone(), v.clone()));
                it.next();
            }
            if let Some(e) = it.status() {
                return Err(e);
            }
            let mut bwd = vec![];
            it.seek_to_last()?;
            while it.is_valid() {
                let (k, v) = it.current().unwrap();
                bwd.push((k.clone(), v.clone()));
                it.prev();
            }
            bwd.reverse();
            if let Some(e) = it.status() {
                return Err(e);
            }
            Ok((fwd, bwd))
        });
        with_out(self.out, |o| o.stats.snap_reads += 2);
        match r {
            Called::Ok(Ok((fwd, bwd))) => {
                let s = self.iters.get_mut(&slot).unwrap();
                s.cursor = None;
                let frozen = s.frozen.clone();
                if fwd != frozen {
                    let want: Kv = frozen.iter().cloned().collect();
                    let d = diff_kv(&fwd, &want).unwrap_or_else(|| "order differs".into());
                    self.finding(Finding::new(&["C03"], "iterator-dump-mismatch", "forward", format!("long-lived iterator slot {} (forward): {}", slot, d), Some(idx)));
                } else if bwd != frozen {
                    let want: Kv = frozen.iter().cloned().collect();
                    let d = diff_kv(&bwd, &want).unwrap_or_else(|| "order differs".into());
                    self.finding(Finding::new(&["C03", "C04"], "iterator-dump-mismatch", "backward", format!("long-lived iterator slot {} (backward): {}", slot, d), Some(idx)));
                }
            }
            Called::Ok(Err(e)) => self.scan_error(&["C03"], "iterator-dump", ScanError::Err(e), idx),
            Called::Panicked { .. } => self.dead = true,
        }
    }
}

pub fn internal_le(a: &(Vec<u8>, u64, u8), b: &(Vec<u8>, u64, u8)) -> bool {
    // user key ascending, sequence number descending
    (a.0.as_slice(), std::cmp::Reverse(a.1)) <= (b.0.as_slice(), std::cmp::Reverse(b.1))
}

pub fn internal_lt(a: &(Vec<u8>, u64, u8), b: &(Vec<u8>, u64, u8)) -> bool {
    (a.0.as_slice(), std::cmp::Reverse(a.1)) < (b.0.as_slice(), std::cmp::Reverse(b.1))
}

fn show_ikey(k: &(Vec<u8>, u64, u8)) -> String {
    format!("{}@{}", show_key(&k.0), k.1)
}

/// C10: per level >= 1 files sorted and pairwise disjoint, smallest <= largest, bounds exact,
/// file numbers unique. Returns files per level.
pub fn check_shape(shape: &VerifShape, findings: &mut Vec<Finding>, entries: impl Fn(u64) -> Result<Vec<raindb::verif_api::VerifTableEntry>, RainDBError>) -> [usize; 7] {
    let mut per_level = [0usize; 7];
    let mut seen: BTreeSet<u64> = BTreeSet::new();
    for f in &shape.files {
        per_level[f.level] += 1;
        if !seen.insert(f.number) {
            findings.push(Finding::new(&["C10"], "duplicate-file-number", "", format!("file number {} appears twice in the version", f.number), None));
        }
        if !internal_le(&f.smallest, &f.largest) {
            findings.push(Finding::new(&["C10"], "bounds-swapped", "", format!("file {} at level {}: smallest {} > largest {}", f.number, f.level, show_ikey(&f.smallest), show_ikey(&f.largest)), None));
        }
        match entries(f.number) {
            Ok(es) => {
                if es.is_empty() {
                    findings.push(Finding::new(&["C10"], "empty-table", "", format!("file {} at level {} has no entries", f.number, f.level), None));
                } else {
                    let first = (es[0].0.clone(), es[0].1, es[0].2);
                    let last = {
                        let e = &es[es.len() - 1];
                        (e.0.clone(), e.1, e.2)
                    };
                    if first != f.smallest || last != f.largest {
                        findings.push(Finding::new(
                            &["C10"],
                            "bounds-inexact",
                            "",
                            format!("file {} at level {}: metadata range [{} .. {}] but the file holds [{} .. {}]", f.number, f.level, show_ikey(&f.smallest), show_ikey(&f.largest), show_ikey(&first), show_ikey(&last)),
                            None,
                        ));
                    }
                }
            }
            Err(e) => {
                findings.push(Finding::new(&["C10", "C11"], "table-unreadable", &err_signature(&e), format!("file {} of the current version cannot be read: {:?}", f.number, e), None));
            }
        }
    }
    for level in 1..7 {
        let files: Vec<_> = shape.files.iter().filter(|f| f.level == level).collect();
        for w in files.windows(2) {
            if w[0].largest.0 == w[1].smallest.0 {
                // two versions of one user key straddle a file boundary inside a level (what
                // compaction's boundary-file handling exists for)
                rt::probe("shape:user_key_split_across_files");
            }
            if !internal_lt(&w[0].largest, &w[1].smallest) {
                let class = if internal_lt(&w[1].smallest, &w[0].smallest) { "level-unsorted" } else { "level-overlap" };
                findings.push(Finding::new(
                    &["C10"],
                    class,
                    "",
                    format!("level {}: file {} [{} .. {}] and file {} [{} .. {}] are not ordered and disjoint", level, w[0].number, show_ikey(&w[0].smallest), show_ikey(&w[0].largest), w[1].number, show_ikey(&w[1].smallest), show_ikey(&w[1].largest)),
                    None,
                ));
            }
        }
    }
    per_level
}

/// The structural part of `check_shape` (no table is read): file numbers unique, bounds ordered,
/// levels >= 1 sorted and disjoint. Versions are installed atomically under the database mutex, so
/// this must hold at ANY moment, not only at quiescent ones.
pub fn check_shape_structure(shape: &VerifShape, findings: &mut Vec<Finding>, when: &str) {
    let mut seen: BTreeSet<u64> = BTreeSet::new();
    for f in &shape.files {
        if !seen.insert(f.number) {
            findings.push(Finding::new(&["C10"], "duplicate-file-number", "", format!("{}: file number {} appears twice in the version", when, f.number), None));
        }
        if !internal_le(&f.smallest, &f.largest) {
            findings.push(Finding::new(&["C10"], "bounds-swapped", "", format!("{}: file {} at level {}: smallest {} > largest {}", when, f.number, f.level, show_ikey(&f.smallest), show_ikey(&f.largest)), None));
        }
    }
    for level in 1..7 {
        let files: Vec<_> = shape.files.iter().filter(|f| f.level == level).collect();
        for w in files.windows(2) {
            if !internal_lt(&w[0].largest, &w[1].smallest) {
                let class = if internal_lt(&w[1].smallest, &w[0].smallest) { "level-unsorted" } else { "level-overlap" };
                findings.push(Finding::new(&["C10"], class, "", format!("{}: level {}: file {} [{} .. {}] and file {} [{} .. {}] are not ordered and disjoint", when, level, w[0].number, show_ikey(&w[0].smallest), show_ikey(&w[0].largest), w[1].number, show_ikey(&w[1].smallest), show_ikey(&w[1].largest)), None));
            }
        }
    }
}

pub struct DirDiff {
    pub missing: Vec<String>,
    pub extra: Vec<String>,
    pub needed: Vec<String>,
    /// refined classes of the extra files (e.g. "manifest-newer", "wal-older", "table")
    pub extra_kinds: BTreeSet<String>,
}

impl DirDiff {
    fn classes(xs: &[String]) -> String {
        let mut c: BTreeSet<&'static str> = BTreeSet::new();
        for x in xs {
            c.insert(crate::exec::class_name(classify(std::path::Path::new(x))));
        }
        c.into_iter().collect::<Vec<_>>().join("+")
    }
    pub fn missing_classes(&self) -> String {
        Self::classes(&self.missing)
    }
    pub fn extra_classes(&self) -> String {
        self.extra_kinds.iter().cloned().collect::<Vec<_>>().join("+")
    }
}

fn file_number(name: &str) -> Option<u64> {
    let digits: String = name.chars().filter(|c| c.is_ascii_digit()).collect();
    digits.parse().ok()
}

/// C11: compare the directory with the set of needed files.
pub fn dir_diff(fs: &SimFs, shape: &VerifShape) -> Option<DirDiff> {
    let listing = fs.listing();
    let mut needed: BTreeSet<String> = BTreeSet::new();
    let mut have: BTreeSet<String> = BTreeSet::new();
    let mut extra = vec![];
    let mut extra_kinds: BTreeSet<String> = BTreeSet::new();
    let current_tables: BTreeSet<u64> = shape.files.iter().map(|f| f.number).collect();
    let mut seen_tables: BTreeSet<u64> = BTreeSet::new();
    let mut seen_wals: BTreeSet<u64> = BTreeSet::new();
    let mut seen_manifest = false;
    let mut seen_current = false;
    for (p, _len) in &listing {
        let name = p.to_string_lossy().to_string();
        have.insert(name.clone());
        let base = p.file_name().map(|n| n.to_string_lossy().to_string()).unwrap_or_default();
        match classify(p) {
            FileClass::Current => seen_current = true,
            FileClass::Lock => {}
            FileClass::Manifest => {
                if file_number(&base) == Some(shape.manifest_number) {
                    seen_manifest = true;
                } else {
                    extra_kinds.insert(if file_number(&base).unwrap_or(0) > shape.manifest_number { "manifest-newer".into() } else { "manifest-older".into() });
                    extra.push(name);
                }
            }
            FileClass::Wal => match file_number(&base) {
                Some(n) if n == shape.active_wal_number => {
                    seen_wals.insert(n);
                }
                n => {
                    extra_kinds.insert(if n.unwrap_or(0) > shape.active_wal_number { "wal-newer".into() } else { "wal-older".into() });
                    extra.push(name)
                }
            },
            FileClass::Table => match file_number(&base) {
                Some(n) if current_tables.contains(&n) => {
                    seen_tables.insert(n);
                }
                _ => {
                    extra_kinds.insert("table".into());
                    extra.push(name)
                }
            },
            c @ (FileClass::Temp | FileClass::Other | FileClass::Dir) => {
                extra_kinds.insert(crate::exec::class_name(c).to_string());
                extra.push(name)
            }
        }
    }
    let mut missing = vec![];
    if !seen_current {
        missing.push("CURRENT".to_string());
    }
    if !seen_manifest {
        missing.push(format!("MANIFEST-{}", shape.manifest_number));
    }
    if !seen_wals.contains(&shape.active_wal_number) {
        missing.push(format!("wal-{}.log", shape.active_wal_number));
    }
    for t in &current_tables {
        if !seen_tables.contains(t) {
            missing.push(format!("{}.rdb", t));
        }
        needed.insert(format!("{}.rdb", t));
    }
    needed.insert(format!("wal-{}.log", shape.active_wal_number));
    needed.insert(format!("MANIFEST-{}", shape.manifest_number));
    if missing.is_empty() && extra.is_empty() {
        None
    } else {
        Some(DirDiff { missing, extra, needed: needed.into_iter().collect(), extra_kinds })
    }
}

/// Fold filesystem statistics of the run into the run statistics.
pub fn fold_fs_stats(fs: &SimFs, out: &Shared) {
    let calls = fs.calls();
    let mut o = out.lock().unwrap();
    o.stats.fs_calls += fs.calls_len() as u64;
    o.stats.mut_ops += fs.mut_log_len() as u64;
    for c in &calls {
        if c.tag == 0 {
            o.stats.call_sites.push((c.kind, c.class));
        }
        if c.class == FileClass::Table {
            if c.kind == CallKind::Create {
                o.stats.tables_created += 1;
            }
            if c.kind == CallKind::Read && c.tag == 0 {
                o.stats.table_reads += 1;
            }
        }
    }
    o.fs_digest = fs.digest();
}

/// Body of one `hist` run (the main task of the simulated execution).
pub fn body(case: &Case, out: &Shared) {
    let plan = &case.plan;
    let fs = Arc::new(SimFs::new());
    let mut c = Client { plan, fs: fs.clone(), db: None, knobs: plan.opens[0].clone(), model: Kv::new(), snaps: BTreeMap::new(), iters: BTreeMap::new(), out, reclaim_pending: false, dead: false, matched_before_close: false };
    if c.open(&plan.opens[0].clone(), true) {
        c.check_all(0, true);
        for (i, op) in plan.ops.iter().enumerate() {
            c.step(i, op);
            if c.dead || rt::is_poisoned() {
                break;
            }
        }
        if !c.dead && !rt::is_poisoned() {
            // final: release everything, one reclamation opportunity, then check everything
            let n = plan.ops.len();
            let slots: Vec<usize> = c.iters.keys().copied().collect();
            for s in slots {
                c.step(n, &Op::IterDump { slot: s });
                c.step(n, &Op::IterClose { slot: s });
            }
            let slots: Vec<usize> = c.snaps.keys().copied().collect();
            for s in slots {
                c.step(n, &Op::SnapDump { slot: s });
                c.step(n, &Op::Release { slot: s });
            }
            c.dir_check(n);
            c.check_all(n, false);
        }
    }
    let completed = !c.dead && !rt::is_poisoned();
    c.close();
    drop(c);
    fold_fs_stats(&fs, out);
    out.lock().unwrap().completed = completed;
}
