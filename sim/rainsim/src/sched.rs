//! Schedulers owned by the simulator. Every interleaving decision of a run is taken here, is a
//! function of (strategy, seed) and is recorded, so a run can be replayed from the recording.

use crate::rng::Rng;
use raindb_verif_rt as rt;
use serde::{Deserialize, Serialize};
use shuttle::scheduler::{Schedule, Scheduler, Task, TaskId};
use std::sync::{Arc, Mutex};

#[derive(Serialize, Deserialize, Clone, Debug, PartialEq)]
pub enum Strategy {
    /// Uniform choice among runnable tasks at every scheduling point.
    Random,
    /// Probabilistic concurrency testing: random distinct priorities, `depth - 1` priority change
    /// points sampled from [1, est_steps].
    Pct { depth: u32, est_steps: u32 },
    /// At `k` seeded step numbers, park the task that next reaches an interesting scheduling
    /// point (mutex released around a slow section, filesystem call, explicit hook) and do not
    /// run it again until every other task is blocked/finished or `budget` steps passed.
    Freeze { k: u32, est_steps: u32, budget: u32, sticky_permille: u32 },
    /// Keep running the current task with probability q.
    Sticky { q_permille: u32 },
    /// Fair round robin (used to separate real hangs from unfair schedules).
    RoundRobin,
    /// Follow a recorded schedule exactly.
    Replay,
}

#[derive(Serialize, Deserialize, Clone, Debug, PartialEq)]
pub struct SchedSpec {
    pub strategy: Strategy,
    pub seed: u64,
}

/// Run-length encoded schedule: (task id, repeat count).
pub type Rle = Vec<(u32, u32)>;

pub fn rle_encode(xs: &[u32]) -> Rle {
    let mut out: Rle = vec![];
    for &x in xs {
        match out.last_mut() {
            Some((t, n)) if *t == x => *n += 1,
            _ => out.push((x, 1)),
        }
    }
    out
}

pub fn rle_decode(r: &Rle) -> Vec<u32> {
    let mut out = vec![];
    for &(t, n) in r {
        for _ in 0..n {
            out.push(t);
        }
    }
    out
}

#[derive(Default, Debug, Clone)]
pub struct SchedOut {
    pub recorded: Vec<u32>,
    pub steps: u64,
    pub switches: u64,
    pub choice_points: u64,
    pub freezes: u64,
    pub freeze_kinds: [u64; 16],
    pub max_frozen_steps: u64,
    pub replay_diverged: Option<u64>,
    pub change_points_hit: u64,
    /// alignment requests seen / victim parked at the requested point / dropped (nobody got there)
    pub align_requests: u64,
    pub align_parked: u64,
    pub align_dropped: u64,
    pub align_kinds: [u64; 16],
}

/// An alignment request being served (see `rt::AlignReq`).
struct Aligning {
    caller: usize,
    mask: u16,
    remaining: u32,
    victim: Option<usize>,
    since: u64,
}

const ALIGN_BUDGET: u64 = 30_000;
/// Flag bit in an alignment mask: keep the parked task parked after the caller blocked.
pub const ALIGN_HOLD: u16 = 1 << 15;

struct Frozen {
    victim: usize,
    since: u64,
}

pub struct SimScheduler {
    strategy: Strategy,
    rng: Rng,
    out: Arc<Mutex<SchedOut>>,
    local: SchedOut,
    replay: Vec<u32>,
    started: bool,
    // pct
    priorities: Vec<u64>,
    next_low: u64,
    change_points: Vec<u64>,
    pct_steps: u64,
    // freeze
    triggers: Vec<u64>,
    armed: u32,
    frozen: Option<Frozen>,
    // round robin
    rr_last: usize,
    // alignment overlay (any strategy but Replay)
    align: Option<Aligning>,
}

impl SimScheduler {
    pub fn new(spec: &SchedSpec, replay: Option<Vec<u32>>) -> (Self, Arc<Mutex<SchedOut>>) {
        let out = Arc::new(Mutex::new(SchedOut::default()));
        let mut rng = Rng::new(spec.seed).fork("sched");
        let mut change_points = vec![];
        let mut triggers = vec![];
        match &spec.strategy {
            Strategy::Pct { depth, est_steps } => {
                for _ in 1..*depth {
                    change_points.push(rng.range(1, (*est_steps).max(2) as u64));
                }
            }
            Strategy::Freeze { k, est_steps, .. } => {
                for _ in 0..*k {
                    triggers.push(rng.range(1, (*est_steps).max(2) as u64));
                }
                triggers.sort_unstable();
            }
            _ => {}
        }
        let s = SimScheduler {
            strategy: spec.strategy.clone(),
            rng,
            out: Arc::clone(&out),
            local: SchedOut::default(),
            replay: replay.unwrap_or_default(),
            started: false,
            priorities: vec![],
            next_low: 1 << 40,
            change_points,
            pct_steps: 0,
            triggers,
            armed: 0,
            frozen: None,
            rr_last: 0,
            align: None,
        };
        (s, out)
    }

    fn pct_priority(&mut self, task: usize) -> u64 {
        while self.priorities.len() <= task {
            // lower value = higher priority; random distinct-ish initial priorities
            let p = self.rng.below(1 << 30);
            self.priorities.push(p);
        }
        self.priorities[task]
    }

    fn publish(&mut self) {
        *self.out.lock().unwrap() = self.local.clone();
    }
}

fn ids(runnable: &[&Task]) -> Vec<usize> {
    runnable.iter().map(|t| usize::from(t.id())).collect()
}

impl Scheduler for SimScheduler {
    fn new_execution(&mut self) -> Option<Schedule> {
        if self.started {
            return None;
        }
        self.started = true;
        Some(Schedule::new(0))
    }

    fn next_task(&mut self, runnable: &[&Task], current: Option<TaskId>, _is_yielding: bool) -> Option<TaskId> {
        let run_ids = ids(runnable);
        let cur = current.map(usize::from);
        let yield_kind = rt::take_last_yield() as usize;
        self.local.steps += 1;
        rt::bump_progress();
        if run_ids.len() > 1 {
            self.local.choice_points += 1;
        }
        let step = self.local.steps;

        // Alignment overlay: a client asked to start its next operation exactly when another task
        // sits at a given kind of point. Phase 1 holds the caller back and counts the others'
        // matching points; phase 2 parks the task that reached the n-th one and runs the caller
        // until it blocks or finishes. The strategy below then chooses among the allowed tasks.
        if let Some(req) = rt::take_align_request() {
            if self.strategy != Strategy::Replay {
                self.align = Some(Aligning { caller: req.caller, mask: req.mask, remaining: req.nth, victim: None, since: step });
                self.local.align_requests += 1;
            }
        }
        let all_ids = run_ids.clone();
        let mut run_ids = run_ids;
        if let Some(a) = &mut self.align {
            if a.victim.is_none() {
                if let Some(c) = cur {
                    if c != a.caller && (a.mask >> yield_kind) & 1 == 1 && run_ids.contains(&c) {
                        a.remaining -= 1;
                        if a.remaining == 0 {
                            a.victim = Some(c);
                            a.since = step;
                            self.local.align_parked += 1;
                            self.local.align_kinds[yield_kind] += 1;
                        }
                    }
                }
            }
            let expired = step - a.since > ALIGN_BUDGET;
            match a.victim {
                None => {
                    let others: Vec<usize> = run_ids.iter().copied().filter(|t| *t != a.caller).collect();
                    if others.is_empty() || expired {
                        self.local.align_dropped += 1;
                        self.align = None;
                    } else {
                        run_ids = others;
                    }
                }
                Some(v) => {
                    if run_ids.contains(&a.caller) && !expired {
                        run_ids = vec![a.caller];
                    } else if a.mask & ALIGN_HOLD != 0 && !expired && run_ids.iter().any(|t| *t != v) {
                        // the caller is blocked or done: with the hold flag the parked task stays
                        // parked while anybody else can run (e.g. a racer reacting to what the
                        // caller just did), up to the budget
                        run_ids.retain(|t| *t != v);
                    } else {
                        self.align = None;
                    }
                }
            }
        }

        // A task that is unwinding from a panic finishes unwinding before anything else runs.
        let choice: usize = if let Some(p) = rt::panicking_task().filter(|p| all_ids.contains(p)) {
            p
        } else {
            match &self.strategy {
                Strategy::Replay => {
                    let idx = (step - 1) as usize;
                    match self.replay.get(idx) {
                        Some(&t) if run_ids.contains(&(t as usize)) => t as usize,
                        _ => {
                            if self.local.replay_diverged.is_none() {
                                self.local.replay_diverged = Some(step);
                            }
                            run_ids[0]
                        }
                    }
                }
                Strategy::Random => run_ids[self.rng.usize_below(run_ids.len())],
                Strategy::RoundRobin => {
                    let next = run_ids.iter().copied().find(|t| *t > self.rr_last).unwrap_or(run_ids[0]);
                    self.rr_last = next;
                    next
                }
                Strategy::Sticky { q_permille } => {
                    let q = *q_permille as u64;
                    match cur {
                        Some(c) if run_ids.contains(&c) && self.rng.below(1000) < q => c,
                        _ => run_ids[self.rng.usize_below(run_ids.len())],
                    }
                }
                Strategy::Pct { .. } => {
                    if run_ids.len() > 1 {
                        self.pct_steps += 1;
                        if self.change_points.contains(&self.pct_steps) {
                            if let Some(c) = cur {
                                self.pct_priority(c);
                                self.priorities[c] = self.next_low;
                                self.next_low += 1;
                                self.local.change_points_hit += 1;
                            }
                        }
                    }
                    let mut best = run_ids[0];
                    let mut best_p = u64::MAX;
                    for &t in &run_ids {
                        let p = self.pct_priority(t);
                        if p < best_p {
                            best_p = p;
                            best = t;
                        }
                    }
                    best
                }
                Strategy::Freeze { budget, sticky_permille, .. } => {
                    let budget = *budget as u64;
                    let sticky = *sticky_permille as u64;
                    // arm when a trigger is reached (triggers count choice points, like PCT's
                    // change points, so that they spread over the whole run)
                    let progress = self.local.choice_points;
                    while let Some(&t) = self.triggers.first() {
                        if t <= progress {
                            self.triggers.remove(0);
                            self.armed += 1;
                        } else {
                            break;
                        }
                    }
                    // release an expired or lonely victim
                    if let Some(fz) = &self.frozen {
                        let others = run_ids.iter().any(|t| *t != fz.victim);
                        if !others || step - fz.since > budget || !run_ids.contains(&fz.victim) {
                            let d = step - fz.since;
                            if d > self.local.max_frozen_steps {
                                self.local.max_frozen_steps = d;
                            }
                            self.frozen = None;
                        }
                    }
                    // freeze the current task if armed and it sits at an interesting point
                    if self.frozen.is_none() && self.armed > 0 && run_ids.len() > 1 {
                        if let Some(c) = cur {
                            // mostly the classified points; one time in eight any other scheduling
                            // point (a plain lock acquisition, a channel operation, a join): windows
                            // between two critical sections of one call are such points
                            let interesting = matches!(yield_kind, 1 | 2 | 3 | 4 | 6) || (yield_kind == 8 && self.rng.below(2) == 0) || (yield_kind == 7 && self.rng.below(4) == 0) || (yield_kind == 0 && self.rng.below(8) == 0);
                            if interesting && run_ids.contains(&c) {
                                self.armed -= 1;
                                self.frozen = Some(Frozen { victim: c, since: step });
                                self.local.freezes += 1;
                                self.local.freeze_kinds[yield_kind] += 1;
                            }
                        }
                    }
                    let candidates: Vec<usize> = match &self.frozen {
                        Some(fz) => run_ids.iter().copied().filter(|t| *t != fz.victim).collect(),
                        None => run_ids.clone(),
                    };
                    let candidates = if candidates.is_empty() { run_ids.clone() } else { candidates };
                    match cur {
                        Some(c) if candidates.contains(&c) && self.rng.below(1000) < sticky => c,
                        _ => candidates[self.rng.usize_below(candidates.len())],
                    }
                }
            }
        };

        if Some(choice) != cur {
            self.local.switches += 1;
        }
        self.local.recorded.push(choice as u32);
        rt::set_scheduled_task(Some(choice));
        // Publishing on every step keeps the recording available even if the execution is
        // abandoned by a panic; it is a clone of a small struct plus a vector, so only do it
        // periodically and rely on `Drop` for the tail.
        if step % 4096 == 0 {
            self.publish();
        }
        Some(TaskId::from(choice))
    }

    fn next_u64(&mut self) -> u64 {
        // RainDB and the harness never draw from shuttle's data source; keep it deterministic.
        self.rng.next_u64()
    }
}

impl Drop for SimScheduler {
    fn drop(&mut self) {
        self.publish();
    }
}
