//! Batch runner: seeded search over many simulated runs on all cores, known-findings filter,
//! minimisation, replay file, fresh-process replay verification, evidence.

use crate::exec::{Case, CaseResult};
use crate::plan::Op;
use crate::report::*;
use crate::rng::{label, mix2};
use crate::sched::Strategy;
use crate::world::Finding;
use serde_json::{json, Value};
use std::sync::atomic::{AtomicBool, AtomicU64, Ordering};
use std::sync::Mutex;
use std::time::Instant;

#[derive(Clone, Copy, Debug, PartialEq, Eq)]
pub enum Tier {
    Quick,
    Thorough,
}

impl Tier {
    pub fn name(self) -> &'static str {
        match self {
            Tier::Quick => "quick",
            Tier::Thorough => "thorough",
        }
    }
}

pub struct CheckSpec {
    pub prop: &'static str,
    pub level: &'static str,
    pub rule: &'static str,
    pub assumptions: Vec<String>,
    pub expected_probes: &'static [&'static str],
    /// (run_seed, index, tier) -> case
    pub gen: Box<dyn Fn(u64, u64, Tier) -> Case + Sync + Send>,
    pub exec: Box<dyn Fn(&Case) -> CaseResult + Sync + Send>,
    /// number of evaluations a result stands for (1 for plain runs, #fault points for enumerations)
    pub evals: Box<dyn Fn(&CaseResult) -> u64 + Sync + Send>,
    pub runs_quick: u64,
    pub runs_thorough: u64,
    pub wall_quick: f64,
    pub wall_thorough: f64,
    pub shrink_plan: bool,
    /// Optional: reduce a failing case to the single fault point that failed (crash point,
    /// failing call, corrupted offset) before it is written to the replay file.
    pub narrow: Option<Box<dyn Fn(&Case, &Finding, &CaseResult) -> Option<Case> + Sync + Send>>,
    pub exhaustive: bool,
    pub extra: Value,
}

pub fn env_seed() -> u64 {
    std::env::var("VERIF_SEED").ok().and_then(|s| s.trim().parse::<u64>().ok()).unwrap_or(1)
}

pub fn workers() -> usize {
    std::env::var("RAINSIM_WORKERS").ok().and_then(|s| s.parse().ok()).unwrap_or_else(|| std::thread::available_parallelism().map(|n| n.get()).unwrap_or(8))
}

pub fn run_seed(seed: u64, prop: &str, index: u64) -> u64 {
    mix2(mix2(seed, label(prop)), index)
}

fn strategy_name(s: &Strategy) -> &'static str {
    match s {
        Strategy::Random => "random",
        Strategy::Pct { .. } => "pct",
        Strategy::Freeze { .. } => "freeze",
        Strategy::Sticky { .. } => "sticky",
        Strategy::RoundRobin => "round_robin",
        Strategy::Replay => "replay",
    }
}

pub fn summarize_case(case: &Case, res: &CaseResult) -> Value {
    let ops: Vec<String> = case.plan.ops.iter().take(25).map(|o| short_op(o)).collect();
    json!({
        "run_seed": format!("{:016x}", case.run_seed),
        "engine": format!("{:?}", case.engine),
        "knobs": case.plan.opens.first(),
        "keys": case.plan.keys.len(),
        "ops_total": case.plan.op_count(),
        "first_ops": ops,
        "clients": case.plan.clients.len(),
        "scheduler": format!("{:?}", case.sched.strategy),
        "fault": case.fault,
        "params": case.params,
        "steps": res.stats.steps,
        "context_switches": res.stats.switches,
        "shapes_seen": res.stats.shapes.iter().rev().take(3).collect::<Vec<_>>(),
        "tables_created": res.stats.tables_created,
        "probes": res.stats.probes,
    })
}

pub fn short_op(o: &Op) -> String {
    match o {
        Op::Put { k, v } => format!("put(k{},v{}:{}B)", k, v.tag, v.len),
        Op::Delete { k } => format!("del(k{})", k),
        Op::Batch { items } => format!("batch[{}]", items.len()),
        Op::Get { k } => format!("get(k{})", k),
        Op::GetMany { k, n } => format!("get(k{})x{}", k, n),
        Op::Align { mask, nth } => format!("align(0x{:02x},{})", mask, nth),
        Op::GetSnap { slot, k } => format!("get@s{}(k{})", slot, k),
        Op::Snap { slot } => format!("snap(s{})", slot),
        Op::Release { slot } => format!("release(s{})", slot),
        Op::SnapDump { slot } => format!("snapdump(s{})", slot),
        Op::IterOpen { slot, snap } => format!("iter_open(i{},{:?})", slot, snap),
        Op::IterSeek { slot, .. } => format!("seek(i{})", slot),
        Op::IterFirst { slot } => format!("first(i{})", slot),
        Op::IterLast { slot } => format!("last(i{})", slot),
        Op::IterNext { slot } => format!("next(i{})", slot),
        Op::IterPrev { slot } => format!("prev(i{})", slot),
        Op::IterDump { slot } => format!("iterdump(i{})", slot),
        Op::IterClose { slot } => format!("iter_close(i{})", slot),
        Op::CompactRange { start, end } => format!("compact({},{})", start.is_some(), end.is_some()),
        Op::Flush => "flush".into(),
        Op::Quiesce => "quiesce".into(),
        Op::Reopen { idx } => format!("reopen({})", idx),
        Op::CheckAll => "check".into(),
        Op::DirCheck => "dircheck".into(),
        Op::Descriptor { kind } => format!("descriptor({})", kind),
    }
}

struct Hit {
    /// taken from the regression corpus (already minimal, recorded schedule): not shrunk again
    from_corpus: bool,
    index: u64,
    case: Case,
    res: CaseResult,
    finding: Finding,
}

pub fn run_check(spec: &CheckSpec, tier: Tier) -> i32 {
    let seed = env_seed();
    let t0 = Instant::now();
    let (n_runs, wall) = match tier {
        Tier::Quick => (spec.runs_quick, spec.wall_quick),
        Tier::Thorough => (spec.runs_thorough, spec.wall_thorough),
    };
    let n_runs = std::env::var("RAINSIM_RUNS").ok().and_then(|s| s.parse().ok()).unwrap_or(n_runs);
    // experiments only (a loaded machine): override the wall budget
    let wall = std::env::var("RAINSIM_WALL").ok().and_then(|s| s.parse::<f64>().ok()).unwrap_or(wall);
    let known = KnownFindings::load();
    println!("rainsim check {} tier={} VERIF_SEED={} runs<={} wall<={}s workers={}", spec.prop, tier.name(), seed, n_runs, wall, workers());

    let next = AtomicU64::new(0);
    let stop = AtomicBool::new(false);
    let hits: Mutex<Vec<Hit>> = Mutex::new(vec![]);
    let harness_errors: Mutex<Vec<String>> = Mutex::new(vec![]);
    let total = Mutex::new(Acc::default());

    // ---- regression corpus: the replay files of every defect repaired so far (replays/fixed/) are
    // re-executed first, with their recorded schedules. On a tree that still contains the repairs
    // none reproduces; a change that brings one of the defects back is reported at once, however
    // deep the state it needs (defect 17 takes the seeded batch some 40 000 runs to reach).
    let mut corpus_ran = 0u64;
    let mut corpus_aborts = 0u64;
    if std::env::var_os("RAINSIM_NO_CORPUS").is_none() {
        let dir = verif_root().join("replays").join("fixed");
        let mut files: Vec<std::path::PathBuf> = std::fs::read_dir(&dir).map(|d| d.filter_map(|e| e.ok().map(|e| e.path())).filter(|p| p.extension().map(|x| x == "json").unwrap_or(false)).collect()).unwrap_or_default();
        files.sort();
        for f in files {
            let Ok(text) = std::fs::read_to_string(&f) else { continue };
            let Ok(rf) = serde_json::from_str::<ReplayFile>(&text) else { continue };
            // child-process engines (C15) and enumeration engines are replayed for their own check only
            if rf.property != spec.prop && !matches!(rf.case.engine, crate::exec::Engine::Hist | crate::exec::Engine::Conc) {
                continue;
            }
            // each corpus case runs in a process of its own: under a changed tree one of them may
            // kill its process, which must not take the batch with it
            let res = match crate::checks::run_child(&rf.case) {
                (Some(r), _, _, _) => r,
                (None, _, _, st) => {
                    corpus_ran += 1;
                    let f = Finding { properties: vec!["C09".into()], class: crate::supervise::ABORT_CLASS.into(), signature: crate::supervise::ABORT_CLASS.into(), detail: format!("executing the regression-corpus case {} kills the whole process ({})", f.display(), st), seq: 0, op_index: None, fault: None };
                    if spec.prop == "C09" {
                        println!("regression corpus: {} kills its process", f.detail);
                        let res = CaseResult { findings: vec![f.clone()], stats: Default::default(), trace: vec![], schedule: vec![], history_digest: 0, fs_digest: 0, sched_digest: 0, completed: false, abort: Some(st), replay_diverged: None, derived: None };
                        hits.lock().unwrap().push(Hit { from_corpus: true, index: 0, case: rf.case.clone(), res, finding: f });
                        stop.store(true, Ordering::Relaxed);
                        break;
                    }
                    corpus_aborts += 1;
                    continue;
                }
            };
            corpus_ran += 1;
            let hit = res.findings.iter().find(|x| x.concerns(spec.prop) && known.matches(spec.prop, x).is_none() && !x.concerns("HARNESS")).cloned();
            if let Some(finding) = hit {
                println!("regression corpus: {} reproduces a finding for {}", f.display(), spec.prop);
                hits.lock().unwrap().push(Hit { from_corpus: true, index: 0, case: rf.case.clone(), res, finding });
                stop.store(true, Ordering::Relaxed);
                break;
            }
        }
    }

    // enumeration engines running in child processes (C15) stop evaluating further fault points
    // of a base run once the batch's wall-clock budget plus a third is used up
    let deadline = std::time::SystemTime::now().duration_since(std::time::UNIX_EPOCH).map(|n| n.as_millis()).unwrap_or(0) + (wall * 1333.0) as u128;
    std::env::set_var("RAINSIM_DEADLINE_MS", deadline.to_string());
    let skip_seeds = crate::watchdog::skipped_seeds();
    let skip_seeds = &skip_seeds;
    let worker_counter = AtomicU64::new(0);
    let worker_counter = &worker_counter;
    std::thread::scope(|scope| {
        for _ in 0..workers() {
            scope.spawn(|| {
                let mut acc = Acc::default();
                let mut inflight = crate::supervise::InflightNote::new(worker_counter.fetch_add(1, Ordering::Relaxed) as usize);
                loop {
                    if stop.load(Ordering::Relaxed) {
                        break;
                    }
                    let i = next.fetch_add(1, Ordering::Relaxed);
                    if i >= n_runs || t0.elapsed().as_secs_f64() > wall {
                        break;
                    }
                    let rs = run_seed(seed, spec.prop, i);
                    if skip_seeds.contains(&rs) {
                        // set aside by the watchdog in an earlier incarnation of this batch
                        acc.runs += 1;
                        acc.aborted += 1;
                        *acc.other_property_findings.entry(format!("C09:{}", crate::watchdog::HANG_CLASS)).or_insert(0) += 1;
                        continue;
                    }
                    let case = (spec.gen)(rs, i, tier);
                    let t_run = Instant::now();
                    inflight.set(i, rs);
                    let res = (spec.exec)(&case);
                    inflight.clear();
                    if std::env::var_os("RAINSIM_TIME_RUNS").is_some() && t_run.elapsed().as_secs_f64() > 3.0 {
                        eprintln!("slow run {} ({:016x}): {:.1}s, {} evaluations, {} steps", i, rs, t_run.elapsed().as_secs_f64(), (spec.evals)(&res), res.stats.steps);
                        eprintln!("   keys={} keylen={} ops={} knobs={:?}", case.plan.keys.len(), case.plan.keys.last().map(|k| k.len()).unwrap_or(0), case.plan.ops.len(), case.plan.opens.first());
                    }
                    acc.runs += 1;
                    RUNS_DONE.fetch_add(1, Ordering::Relaxed);
                    acc.evaluations += (spec.evals)(&res);
                    if res.completed {
                        acc.completed += 1;
                    } else {
                        acc.aborted += 1;
                    }
                    if res.stats.nontrivial() {
                        acc.nontrivial += 1;
                        acc.signatures.insert(res.stats.signature());
                    }
                    acc.schedules.insert(res.sched_digest);
                    acc.histories.insert(res.history_digest);
                    *acc.strategies.entry(strategy_name(&case.sched.strategy).to_string()).or_insert(0) += 1;
                    acc.absorb_stats(&res);
                    if acc.seeds.len() < 2 {
                        acc.seeds.push(rs);
                    }
                    if acc.samples.is_empty() && res.stats.nontrivial() {
                        acc.samples.push(summarize_case(&case, &res));
                    }
                    let mut hit: Option<Finding> = None;
                    for f in &res.findings {
                        // the simulator itself ran out of a resource (stack mappings of shuttle tasks):
                        // not a statement about RainDB
                        let sim_resource = f.detail.contains("Cannot allocate memory") && f.detail.contains("shuttle-");
                        if f.concerns("HARNESS") || sim_resource {
                            harness_errors.lock().unwrap().push(format!("run {} ({:016x}): {}", i, rs, f.detail));
                            stop.store(true, Ordering::Relaxed);
                        } else if f.concerns(spec.prop) {
                            if let Some(k) = known.matches(spec.prop, f) {
                                *acc.known_hits.entry(k.signature.clone()).or_insert(0) += 1;
                            } else if hit.is_none() {
                                hit = Some(f.clone());
                            }
                        } else {
                            if std::env::var_os("RAINSIM_SHOW_OTHER").is_some() {
                                eprintln!("other-property finding in run {}: {:?} [{}] {}", i, f.properties, f.signature, f.detail);
                            }
                            for p in &f.properties {
                                *acc.other_property_findings.entry(format!("{}:{}", p, f.class)).or_insert(0) += 1;
                            }
                        }
                    }
                    if let Some(f) = hit {
                        hits.lock().unwrap().push(Hit { from_corpus: false, index: i, case, res, finding: f });
                        stop.store(true, Ordering::Relaxed);
                    }
                }
                total.lock().unwrap().merge(acc);
            });
        }
    });

    let mut acc = total.into_inner().unwrap();
    acc.add("regression_corpus_cases_replayed", corpus_ran);
    if corpus_aborts > 0 {
        *acc.other_property_findings.entry(format!("C09:{}", crate::supervise::ABORT_CLASS)).or_insert(0) += corpus_aborts;
    }
    let errs = harness_errors.into_inner().unwrap();
    if !errs.is_empty() {
        for e in errs.iter().take(5) {
            eprintln!("HARNESS ERROR: {}", e);
        }
        return 2;
    }
    let mut hits = hits.into_inner().unwrap();
    hits.sort_by_key(|h| h.index);
    let mut violations = 0u64;
    let mut exit = 0;
    let mut violation_line: Option<String> = None;
    // Candidates are confirmed by a replay in a fresh process. If the first one does not reproduce
    // there (the code under test behaves differently in another process: undefined behaviour, e.g.
    // a dangling pointer whose effect depends on the heap's history), the next candidates are tried;
    // only if none reproduces is the batch a harness error.
    let mut unconfirmed: Vec<String> = vec![];
    for h in hits.into_iter().take(4) {
        if exit == 1 {
            break;
        }
        violations = 1;
        println!("violation candidate in run {} (run_seed {:016x}): [{}] {}", h.index, h.case.run_seed, h.finding.signature, h.finding.detail);
        let mut h = h;
        if let (Some(narrow), false) = (&spec.narrow, h.from_corpus) {
            if let Some(nc) = narrow(&h.case, &h.finding, &h.res) {
                let r = (spec.exec)(&nc);
                if let Some(g) = same_violation(&r, spec.prop, &h.finding) {
                    println!("  narrowed to the single failing fault point: {:?}", nc.params);
                    h.case = nc;
                    h.res = r;
                    h.finding = g;
                }
            }
        }
        let shrinkable = matches!(h.case.engine, crate::exec::Engine::Hist | crate::exec::Engine::Conc);
        let (case, res, finding, note) = if spec.shrink_plan && shrinkable && !h.from_corpus { shrink(spec, &h.case, &h.res, &h.finding) } else { (h.case.clone(), h.res.clone(), h.finding.clone(), None) };
        // freeze the schedule into the replay file
        let mut rcase = case.clone();
        rcase.schedule = Some(res.schedule.clone());
        rcase.sched.strategy = Strategy::Replay;
        let path = write_replay(spec.prop, &finding, &rcase, &res, note);
        match verify_replay_fresh(&path, &finding) {
            Ok(()) => {
                violation_line = Some(format!("VIOLATION property={} replay={}", spec.prop, path.display()));
                println!("  what: {}", finding.detail);
                exit = 1;
            }
            Err(e) => {
                unconfirmed.push(format!("replay of {} in a fresh process did not reproduce the violation: {}", path.display(), e));
                if std::env::var_os("RAINSIM_KEEP_UNCONFIRMED").is_none() {
                    let _ = std::fs::remove_file(&path);
                }
                exit = 2;
            }
        }
    }
    if exit == 2 {
        for u in &unconfirmed {
            eprintln!("HARNESS ERROR: {}", u);
        }
    } else if !unconfirmed.is_empty() {
        println!("  note: {} earlier candidate(s) did not reproduce in a fresh process (behaviour of the code under test that depends on the process, e.g. undefined behaviour)", unconfirmed.len());
    }
    for k in known.findings.iter().filter(|k| k.property == spec.prop) {
        let n = acc.known_hits.get(&k.signature).copied().unwrap_or(0);
        println!("KNOWN-FINDING: property={} {} (signature '{}', reproduced in {} runs of this batch)", spec.prop, k.what, k.signature, n);
    }
    let wall_s = t0.elapsed().as_secs_f64();
    if acc.evaluations == 0 {
        acc.evaluations = acc.runs;
    }
    let ev = EvidenceSpec {
        property: spec.prop,
        tier: tier.name(),
        seed,
        level: spec.level,
        rule: spec.rule,
        assumptions: spec.assumptions.clone(),
        wall_s,
        violations,
        exhaustive: spec.exhaustive,
        expected_probes: spec.expected_probes,
        extra: spec.extra.clone(),
    };
    write_evidence(&ev, &acc);
    println!(
        "{}: runs={} evaluations={} completed={} nontrivial={} distinct_signatures={} wall={:.1}s other-property findings={:?}",
        spec.prop,
        acc.runs,
        acc.evaluations,
        acc.completed,
        acc.nontrivial,
        acc.signatures.len(),
        wall_s,
        acc.other_property_findings
    );
    let zero: Vec<&&str> = spec.expected_probes.iter().filter(|p| acc.probes.get(**p).copied().unwrap_or(0) == 0).collect();
    if !zero.is_empty() {
        println!("warning: probes stuck at zero in this batch: {:?}", zero);
    }
    if let Some(l) = violation_line {
        println!("{}", l);
    }
    if exit == 0 && acc.runs == 0 {
        eprintln!("HARNESS ERROR: no run was executed");
        return 2;
    }
    exit
}

/// Evidence for a batch that ended because a run did not terminate (written by the watchdog just
/// before the process re-executes itself to verify the replay file).
pub fn write_stuck_evidence(prop: &str, why: &str) {
    let Some(spec) = crate::checks::spec_for(prop) else { return };
    let mut acc = Acc::default();
    acc.runs = RUNS_DONE.load(Ordering::Relaxed);
    acc.evaluations = acc.runs;
    acc.completed = acc.runs;
    acc.samples.push(json!({"note": format!("batch ended by the watchdog: {}", why)}));
    let ev = EvidenceSpec { property: spec.prop, tier: "unknown", seed: env_seed(), level: spec.level, rule: spec.rule, assumptions: spec.assumptions.clone(), wall_s: 0.0, violations: 1, exhaustive: spec.exhaustive, expected_probes: spec.expected_probes, extra: spec.extra.clone() };
    write_evidence(&ev, &acc);
}

pub static RUNS_DONE: std::sync::atomic::AtomicU64 = std::sync::atomic::AtomicU64::new(0);

fn same_violation(res: &CaseResult, prop: &str, f: &Finding) -> Option<Finding> {
    res.findings_for(prop).find(|g| g.class == f.class).cloned()
}

/// Delta debugging over the plan while the same violation class persists.
fn shrink(spec: &CheckSpec, case: &Case, res: &CaseResult, f: &Finding) -> (Case, CaseResult, Finding, Option<String>) {
    let t0 = Instant::now();
    let mut best = case.clone();
    let mut best_res = res.clone();
    let mut best_f = f.clone();
    let mut execs = 0u32;
    let budget_execs = 600u32;
    let budget_s = 40.0;
    let ops_before = case.plan.op_count();

    let mut attempt = |cand: Case, best: &mut Case, best_res: &mut CaseResult, best_f: &mut Finding, execs: &mut u32| -> bool {
        if *execs >= budget_execs || t0.elapsed().as_secs_f64() > budget_s {
            return false;
        }
        *execs += 1;
        let r = (spec.exec)(&cand);
        if r.findings.iter().any(|g| g.concerns("HARNESS")) {
            return false;
        }
        if let Some(g) = same_violation(&r, spec.prop, f) {
            *best = cand;
            *best_res = r;
            *best_f = g;
            true
        } else {
            false
        }
    };

    // 1. truncate after the failing op (single-client plans)
    if let Some(i) = best_f.op_index {
        if best.plan.clients.is_empty() && i + 1 < best.plan.ops.len() {
            let mut c = best.clone();
            c.plan.ops.truncate(i + 1);
            attempt(c, &mut best, &mut best_res, &mut best_f, &mut execs);
        }
    }
    // 2. drop whole clients
    let mut ci = 0;
    while ci < best.plan.clients.len() {
        let mut c = best.clone();
        c.plan.clients.remove(ci);
        if !attempt(c, &mut best, &mut best_res, &mut best_f, &mut execs) {
            ci += 1;
        }
    }
    // 3. ddmin over each op list
    let n_lists = 2 + best.plan.clients.len();
    for list in 0..n_lists {
        let get_len = |c: &Case| match list {
            0 => c.plan.ops.len(),
            1 => c.plan.tail.len(),
            n => c.plan.clients.get(n - 2).map(|v| v.len()).unwrap_or(0),
        };
        let mut chunk = (get_len(&best) / 2).max(1);
        while chunk >= 1 {
            let mut start = 0;
            let mut progress = false;
            while start < get_len(&best) {
                let mut c = best.clone();
                {
                    let v = match list {
                        0 => &mut c.plan.ops,
                        1 => &mut c.plan.tail,
                        n => &mut c.plan.clients[n - 2],
                    };
                    let end = (start + chunk).min(v.len());
                    v.drain(start..end);
                }
                if attempt(c, &mut best, &mut best_res, &mut best_f, &mut execs) {
                    progress = true;
                } else {
                    start += chunk;
                }
                if execs >= budget_execs {
                    break;
                }
            }
            if chunk == 1 && !progress {
                break;
            }
            if chunk > 1 {
                chunk /= 2;
            } else if !progress {
                break;
            }
            if execs >= budget_execs || t0.elapsed().as_secs_f64() > budget_s {
                break;
            }
        }
    }
    // 4. simpler operations: small values, batch -> single put, compact_range -> flush
    for i in 0..best.plan.ops.len() {
        let simpler: Option<Op> = match &best.plan.ops[i] {
            Op::Put { k, v } if v.len > 16 => Some(Op::Put { k: *k, v: crate::plan::Val { tag: v.tag, len: 12 } }),
            Op::Batch { items } if items.len() > 1 => Some(Op::Batch { items: items[..1].to_vec() }),
            Op::CompactRange { .. } => Some(Op::Flush),
            Op::GetMany { k, .. } => Some(Op::Get { k: *k }),
            _ => None,
        };
        if let Some(op) = simpler {
            let mut c = best.clone();
            c.plan.ops[i] = op;
            attempt(c, &mut best, &mut best_res, &mut best_f, &mut execs);
        }
    }
    // 5. fewer context switches
    if !matches!(best.sched.strategy, Strategy::Sticky { q_permille: 1000 }) {
        let mut c = best.clone();
        c.sched.strategy = Strategy::Sticky { q_permille: 1000 };
        attempt(c, &mut best, &mut best_res, &mut best_f, &mut execs);
    }
    // 6. a single configuration
    if best.plan.opens.len() > 1 && !best.plan.ops.iter().any(|o| matches!(o, Op::Reopen { .. })) {
        let mut c = best.clone();
        c.plan.opens.truncate(1);
        attempt(c, &mut best, &mut best_res, &mut best_f, &mut execs);
    }
    let note = format!("shrunk from {} to {} operations in {} executions ({:.1}s)", ops_before, best.plan.op_count(), execs, t0.elapsed().as_secs_f64());
    println!("  {}", note);
    (best, best_res, best_f, Some(note))
}

fn verify_replay_fresh(path: &std::path::Path, f: &Finding) -> Result<(), String> {
    let exe = std::env::current_exe().map_err(|e| e.to_string())?;
    let out = std::process::Command::new(exe).arg("replay").arg(path).output().map_err(|e| e.to_string())?;
    let stdout = String::from_utf8_lossy(&out.stdout).to_string();
    let want = format!("REPRODUCED signature={}", f.signature);
    if stdout.lines().any(|l| l == want || l.trim() == want.trim()) {
        Ok(())
    } else {
        Err(format!("exit={:?}; stdout tail: {}", out.status.code(), stdout.lines().rev().take(6).collect::<Vec<_>>().join(" | ")))
    }
}
