//! Shared plumbing: building `DbOptions` from knobs, calling RainDB with panics turned into
//! outcomes, dumps, findings.

use crate::plan::Knobs;
use raindb::fs::FileSystem;
use raindb::{BloomFilterPolicy, DbOptions, RainDBError, RainDbIterator, ReadOptions, Snapshot, WriteOptions, DB};
use raindb_verif_rt as rt;
use serde::{Deserialize, Serialize};
use std::collections::BTreeMap;
use std::panic::{catch_unwind, AssertUnwindSafe};
use std::sync::Arc;

pub const DB_PATH: &str = "/db";

pub type Kv = BTreeMap<Vec<u8>, Vec<u8>>;

/// A violation of one or more properties observed in a run.
#[derive(Serialize, Deserialize, Clone, Debug, PartialEq)]
pub struct Finding {
    /// Properties this observation violates.
    pub properties: Vec<String>,
    /// Violation class, e.g. "get-mismatch", "bg-panic".
    pub class: String,
    /// Stable signature used for known-findings matching and for "same violation" during
    /// shrinking: class plus the discriminating detail (API call, panic location, file class).
    pub signature: String,
    /// Human-readable detail (expected vs got, at which operation).
    pub detail: String,
    /// Global event sequence number at which it was observed.
    pub seq: u64,
    /// Index of the operation in its client's program, if applicable.
    pub op_index: Option<usize>,
    /// The injected fault under which it was observed (fault engines), for narrowing.
    #[serde(default)]
    pub fault: Option<crate::simfs::FaultSpec>,
}

impl Finding {
    pub fn new(props: &[&str], class: &str, sig_detail: &str, detail: String, op_index: Option<usize>) -> Finding {
        Finding {
            properties: props.iter().map(|s| s.to_string()).collect(),
            class: class.to_string(),
            signature: if sig_detail.is_empty() { class.to_string() } else { format!("{}|{}", class, sig_detail) },
            detail,
            seq: rt::current_seq(),
            op_index,
            fault: None,
        }
    }

    pub fn concerns(&self, prop: &str) -> bool {
        self.properties.iter().any(|p| p == prop)
    }
}

pub fn options(fs: Arc<dyn FileSystem>, k: &Knobs, create_if_missing: bool) -> DbOptions {
    rt::with_ctx(|c| {
        c.knobs.insert("table_cache_capacity".into(), k.table_cache_cap as i64);
        c.knobs.insert("level_base_bytes".into(), k.level_base_bytes as i64);
        c.knobs.insert("min_allowed_seeks".into(), k.min_allowed_seeks as i64);
        c.knobs.insert("opt_sync_mode".into(), k.sync_mode as i64);
        c.knobs.insert("opt_fill_cache_mode".into(), k.fill_cache_mode as i64);
        if k.read_bytes_period > 0 {
            c.knobs.insert("iteration_read_bytes_period".into(), k.read_bytes_period as i64);
        } else {
            c.knobs.remove("iteration_read_bytes_period");
        }
    });
    DbOptions {
        db_path: DB_PATH.to_string(),
        max_memtable_size: k.max_memtable_size,
        max_file_size: k.max_file_size,
        max_block_size: k.max_block_size,
        filesystem_provider: fs,
        filter_policy: Arc::new(BloomFilterPolicy::new(k.bloom_bits)),
        block_cache: raindb::verif_api::new_block_cache(k.block_cache_cap),
        create_if_missing,
        error_if_exists: false,
        reuse_log_files: k.reuse_log_files,
    }
}

fn opt_alternate(mode_knob: &str, counter_knob: &str) -> u8 {
    rt::with_ctx(|c| {
        let mode = c.knobs.get(mode_knob).copied().unwrap_or(0) as u8;
        if mode == 2 {
            let n = c.knobs.entry(counter_knob.to_string()).or_insert(0);
            *n += 1;
            if *n % 2 == 0 { 2 } else { 3 }
        } else {
            mode
        }
    })
}

/// Write options of the current open (swarm knob `sync_mode`).
pub fn wopts() -> WriteOptions {
    WriteOptions { synchronous: matches!(opt_alternate("opt_sync_mode", "opt_sync_counter"), 1 | 2) }
}

/// `fill_cache` of the current open (swarm knob `fill_cache_mode`).
pub fn fill_cache() -> bool {
    matches!(opt_alternate("opt_fill_cache_mode", "opt_fill_counter"), 0 | 2)
}

/// Outcome of calling into RainDB: a value, or a caught panic (message, location).
pub enum Called<T> {
    Ok(T),
    Panicked { message: String, location: String },
}

/// Call into RainDB; a panic is caught, recorded in the registry and returned as an outcome so
/// that no panic escapes a client task (which would abandon the other tasks' stacks).
pub fn call<T>(what: &str, f: impl FnOnce() -> T) -> Called<T> {
    rt::clear_last_panic();
    match catch_unwind(AssertUnwindSafe(f)) {
        Ok(v) => {
            rt::unwind_finished();
            Called::Ok(v)
        }
        Err(p) => {
            let (message, location) = rt::peek_last_panic().unwrap_or_else(|| ("<unknown>".into(), "<unknown>".into()));
            rt::record_panic(&format!("client:{}", what), p.as_ref());
            rt::set_poisoned();
            Called::Panicked { message, location }
        }
    }
}

/// Shorten a panic location to a stable repo-relative form (`src/db.rs:123` -> `db.rs`): line
/// numbers shift with unrelated edits, so signatures keep the file and the message head only.
pub fn panic_signature(message: &str, location: &str) -> String {
    let file = location.rsplit('/').next().unwrap_or(location);
    let file = file.split(':').next().unwrap_or(file);
    // one line, single spaces (assert messages span lines; a signature must survive being printed
    // and compared line by line)
    let flat: String = message.split_whitespace().collect::<Vec<_>>().join(" ");
    let head: String = flat.chars().take(60).collect();
    let head: String = head.chars().map(|c| if c.is_ascii_digit() { '#' } else { c }).collect();
    format!("{}|{}", file, head)
}

pub fn err_signature(e: &RainDBError) -> String {
    let s = format!("{:?}", e).split_whitespace().collect::<Vec<_>>().join(" ");
    let head: String = s.chars().take(48).collect();
    head.chars().map(|c| if c.is_ascii_digit() { '#' } else { c }).collect()
}

pub fn show_key(k: &[u8]) -> String {
    if k.len() > 48 {
        // huge keys: head, length and tail identify them
        return format!("{}..(len {})..{}", show_key(&k[..12]), k.len(), show_key(&k[k.len() - 8..]));
    }
    if k.iter().all(|b| b.is_ascii_graphic()) {
        format!("{:?}", String::from_utf8_lossy(k))
    } else {
        format!("0x{}", k.iter().map(|b| format!("{:02x}", b)).collect::<String>())
    }
}

pub fn show_val(v: &[u8]) -> String {
    let head: Vec<u8> = v.iter().take(14).copied().collect();
    format!("{:?}(len {})", String::from_utf8_lossy(&head), v.len())
}

pub fn show_opt(v: &Option<Vec<u8>>) -> String {
    match v {
        Some(v) => show_val(v),
        None => "<absent>".into(),
    }
}

#[derive(Debug)]
pub enum ScanError {
    Err(RainDBError),
    /// Keys came out not strictly increasing, or forward/backward disagree.
    Disorder(String),
}

/// Full forward scan through a fresh iterator.
pub fn scan_forward(db: &DB, snapshot: Option<Snapshot>) -> Result<Vec<(Vec<u8>, Vec<u8>)>, ScanError> {
    let mut it = db.new_iterator(ReadOptions { fill_cache: fill_cache(), snapshot }).map_err(ScanError::Err)?;
    let mut out = vec![];
    it.seek_to_first().map_err(ScanError::Err)?;
    while it.is_valid() {
        let (k, v) = it.current().unwrap();
        out.push((k.clone(), v.clone()));
        it.next();
    }
    // an iterator that turned invalid may have failed rather than run out of entries
    if let Some(e) = it.status() {
        return Err(ScanError::Err(e));
    }
    drop(it);
    for w in out.windows(2) {
        if w[0].0 >= w[1].0 {
            return Err(ScanError::Disorder(format!("forward scan not strictly increasing at {} then {}", show_key(&w[0].0), show_key(&w[1].0))));
        }
    }
    Ok(out)
}

/// Full backward scan through a fresh iterator, returned in ascending order.
pub fn scan_backward(db: &DB, snapshot: Option<Snapshot>) -> Result<Vec<(Vec<u8>, Vec<u8>)>, ScanError> {
    let mut it = db.new_iterator(ReadOptions { fill_cache: fill_cache(), snapshot }).map_err(ScanError::Err)?;
    let mut out = vec![];
    it.seek_to_last().map_err(ScanError::Err)?;
    while it.is_valid() {
        let (k, v) = it.current().unwrap();
        out.push((k.clone(), v.clone()));
        it.prev();
    }
    if let Some(e) = it.status() {
        return Err(ScanError::Err(e));
    }
    drop(it);
    out.reverse();
    for w in out.windows(2) {
        if w[0].0 >= w[1].0 {
            return Err(ScanError::Disorder(format!("backward scan not strictly decreasing at {} then {}", show_key(&w[1].0), show_key(&w[0].0))));
        }
    }
    Ok(out)
}

pub fn get(db: &DB, snapshot: Option<Snapshot>, key: &[u8]) -> Result<Option<Vec<u8>>, RainDBError> {
    match db.get(ReadOptions { fill_cache: fill_cache(), snapshot }, key) {
        Ok(v) => Ok(Some(v)),
        Err(RainDBError::KeyNotFound) => Ok(None),
        Err(e) => Err(e),
    }
}

/// First difference between a scan and the model, for reports.
pub fn diff_kv(got: &[(Vec<u8>, Vec<u8>)], want: &Kv) -> Option<String> {
    let got_map: Kv = got.iter().cloned().collect();
    for (k, v) in want {
        match got_map.get(k) {
            None => return Some(format!("key {} missing (model has {})", show_key(k), show_val(v))),
            Some(g) if g != v => return Some(format!("key {} has {} but model has {}", show_key(k), show_val(g), show_val(v))),
            _ => {}
        }
    }
    for (k, v) in &got_map {
        if !want.contains_key(k) {
            return Some(format!("key {} = {} present but absent in model", show_key(k), show_val(v)));
        }
    }
    if got.len() != got_map.len() {
        return Some("scan returned a key twice".into());
    }
    None
}
