//! `lockrace` engine (C17): 2-4 tasks race open / hold / close / destroy_database on ONE path of
//! the real disk filesystem (`TmpFileSystem`, i.e. fs_disk.rs with flock), wrapped in a tracing
//! delegate that turns every filesystem call into a scheduling point, so that the simulator's
//! scheduler interleaves the tasks between the individual syscalls of open, Drop and destroy.

use crate::exec::{Case, RunOutput, Shared};
use crate::plan::Knobs;
use crate::world::*;
use raindb::RainDbIterator as _;
use raindb::fs::{FileLock, FileSystem, RandomAccessFile, ReadonlyRandomAccessFile, TmpFileSystem};
use raindb::{BloomFilterPolicy, DbOptions, ReadOptions, WriteOptions, DB};
use raindb_verif_rt as rt;
use serde::{Deserialize, Serialize};
use std::collections::BTreeSet;
use std::io;
use std::path::{Path, PathBuf};
use std::sync::{Arc, Mutex};

#[derive(Serialize, Deserialize, Clone, Debug, PartialEq)]
pub enum LOp {
    Open,
    /// open with create_if_missing = false: fails on a path without a database and must leave
    /// nothing behind that disturbs a creator racing with it
    OpenExisting,
    /// yield n times, re-reading the own key each time when owning the database
    Hold(u32),
    Close,
    Destroy,
    /// n puts of ~120 bytes through the own handle (memtable rotations, flushes and compactions
    /// are then in flight when the handle is closed)
    Burst(u32),
    /// n full forward scans through the own handle (iterator read sampling, with the H7 knob at a
    /// few hundred bytes, schedules seek compactions from the reading thread)
    Scan(u32),
    /// one put whose write-ahead-log append fails (a single injected I/O error): the instance
    /// records a background error; closing such an instance must still keep the lock until its
    /// worker has stopped
    FaultPut,
    /// wait until the own instance has no background work scheduled (so that what a following scan
    /// triggers is the only background work in flight)
    Settle,
    /// wait until some task begins to close its handle (or nobody is left who could), then try to
    /// open: puts the attempt into the window between "close began" and "background work stopped"
    OpenAfterClose,
    /// scheduling directive (see `plan::Op::Align`): the next operation of this task starts when
    /// another task sits at its nth scheduling point of a kind in mask
    Align { mask: u16, nth: u32 },
}

#[derive(Serialize, Deserialize, Clone, Debug, PartialEq, Default)]
pub struct LockPlan {
    pub tasks: Vec<Vec<LOp>>,
    /// number of tasks racing `open` in the final phase
    pub final_racers: usize,
    /// number of lock probes by an extra task during the main phase (0 = no prober): each probe
    /// try-locks LOCK and releases it at once, which reveals the moments at which the lock is free
    #[serde(default)]
    pub probes: u32,
}

/// Delegating filesystem: every call is a scheduling point and is counted.
pub struct Traced {
    inner: TmpFileSystem,
    calls: Mutex<u64>,
    /// (seq, task) of every mutating call (create / rename / remove / write through a handle)
    mutations: Arc<Mutex<Vec<(u64, usize, &'static str)>>>,
    /// (seq, task) of every successful lock acquisition
    locks: Mutex<Vec<(u64, usize)>>,
    /// number of write-ahead-log appends that are still to fail (armed by `LOp::FaultPut`)
    fail_wal_appends: Arc<std::sync::atomic::AtomicU32>,
}

/// Writable handle whose writes are scheduling points and are logged as mutations.
struct TracedFile {
    inner: Box<dyn RandomAccessFile>,
    mutations: Arc<Mutex<Vec<(u64, usize, &'static str)>>>,
    is_wal: bool,
    fail_wal_appends: Arc<std::sync::atomic::AtomicU32>,
}

impl TracedFile {
    fn note(&self) {
        rt::sched_point(rt::YieldKind::Fs);
        let seq = rt::next_seq();
        self.mutations.lock().unwrap().push((seq, rt::current_task(), "write"));
    }
}

impl TracedFile {
    fn maybe_fail(&self) -> io::Result<()> {
        if self.is_wal {
            use std::sync::atomic::Ordering::SeqCst;
            if self.fail_wal_appends.fetch_update(SeqCst, SeqCst, |n| n.checked_sub(1)).is_ok() {
                return Err(io::Error::new(io::ErrorKind::Other, "injected write-ahead-log write failure"));
            }
        }
        Ok(())
    }
}

impl io::Read for TracedFile {
    fn read(&mut self, buf: &mut [u8]) -> io::Result<usize> {
        self.inner.read(buf)
    }
}

impl io::Seek for TracedFile {
    fn seek(&mut self, pos: io::SeekFrom) -> io::Result<u64> {
        self.inner.seek(pos)
    }
}

impl io::Write for TracedFile {
    fn write(&mut self, buf: &[u8]) -> io::Result<usize> {
        self.note();
        self.maybe_fail()?;
        self.inner.write(buf)
    }
    fn flush(&mut self) -> io::Result<()> {
        self.inner.flush()
    }
}

impl ReadonlyRandomAccessFile for TracedFile {
    fn read_from(&self, buf: &mut [u8], offset: usize) -> io::Result<usize> {
        self.inner.read_from(buf, offset)
    }
    fn len(&self) -> io::Result<u64> {
        self.inner.len()
    }
}

impl RandomAccessFile for TracedFile {
    fn append(&mut self, buf: &[u8]) -> io::Result<usize> {
        self.note();
        self.maybe_fail()?;
        self.inner.append(buf)
    }
}

impl Traced {
    fn enter(&self) {
        rt::sched_point(rt::YieldKind::Fs);
        rt::next_seq();
        *self.calls.lock().unwrap() += 1;
    }

    fn enter_mut(&self, what: &'static str) {
        self.enter();
        self.mutations.lock().unwrap().push((rt::current_seq(), rt::current_task(), what));
    }
}

impl FileSystem for Traced {
    fn get_name(&self) -> String {
        "Traced<TmpFileSystem>".into()
    }
    fn create_dir(&self, path: &Path) -> io::Result<()> {
        self.enter();
        self.inner.create_dir(path)
    }
    fn create_dir_all(&self, path: &Path) -> io::Result<()> {
        self.enter();
        self.inner.create_dir_all(path)
    }
    fn list_dir(&self, path: &Path) -> io::Result<Vec<PathBuf>> {
        self.enter();
        self.inner.list_dir(path)
    }
    fn open_file(&self, path: &Path) -> io::Result<Box<dyn ReadonlyRandomAccessFile>> {
        self.enter();
        self.inner.open_file(path)
    }
    fn rename(&self, from: &Path, to: &Path) -> io::Result<()> {
        self.enter_mut("rename");
        self.inner.rename(from, to)
    }
    fn create_file(&self, path: &Path, append: bool) -> io::Result<Box<dyn RandomAccessFile>> {
        self.enter_mut("create_file");
        let f = self.inner.create_file(path, append)?;
        let is_wal = path.extension().map(|e| e == "log").unwrap_or(false);
        Ok(Box::new(TracedFile { inner: f, mutations: Arc::clone(&self.mutations), is_wal, fail_wal_appends: Arc::clone(&self.fail_wal_appends) }))
    }
    fn remove_file(&self, path: &Path) -> io::Result<()> {
        self.enter_mut(if path.file_name().map(|n| n == "LOCK").unwrap_or(false) { "remove_lock_file" } else { "remove_file" });
        self.inner.remove_file(path)
    }
    fn remove_dir(&self, path: &Path) -> io::Result<()> {
        self.enter_mut("remove_dir");
        self.inner.remove_dir(path)
    }
    fn remove_dir_all(&self, path: &Path) -> io::Result<()> {
        self.enter_mut("remove_dir_all");
        self.inner.remove_dir_all(path)
    }
    fn get_file_size(&self, path: &Path) -> io::Result<u64> {
        self.enter();
        self.inner.get_file_size(path)
    }
    fn is_dir(&self, path: &Path) -> io::Result<bool> {
        self.enter();
        self.inner.is_dir(path)
    }
    fn lock_file(&self, path: &Path) -> io::Result<FileLock> {
        self.enter();
        let r = self.inner.lock_file(path);
        if r.is_ok() {
            self.locks.lock().unwrap().push((rt::next_seq(), rt::current_task()));
        }
        // the moment the lock is (not) granted is itself an interesting point
        rt::sched_point(rt::YieldKind::Fs);
        r
    }
}

#[derive(Default)]
struct Owners {
    /// tasks that currently hold a successfully opened handle (removed before Drop starts)
    current: BTreeSet<usize>,
    opens_ok: u64,
    opens_refused: u64,
    destroy_ok: u64,
    destroy_refused: u64,
    /// (start seq, end seq) of every open / destroy call
    open_calls: Vec<(u64, u64)>,
    destroy_calls: Vec<(u64, u64)>,
    /// (start seq, end seq, shuttle task, returned Ok) of every open call
    open_calls_by: Vec<(u64, u64, usize, bool)>,
    /// (start seq, end seq, shuttle task) of every destroy call
    destroy_calls_by: Vec<(u64, u64, usize)>,
    /// (shuttle task, seq at which its close began)
    closes_by: Vec<(usize, u64)>,
    /// open / destroy calls in progress right now (to notice an overlap the moment it begins, so
    /// that the classification survives an execution that is cut short by a panic or deadlock)
    active_opens: u32,
    active_destroys: u32,
    /// ownership intervals: (task, tasks existing when its open began, open returned at, close began at)
    intervals: Vec<(usize, u64, u64, u64)>,
    open_now: std::collections::BTreeMap<usize, (u64, u64)>,
}

fn with_out<R>(out: &Shared, f: impl FnOnce(&mut RunOutput) -> R) -> R {
    f(&mut out.lock().unwrap())
}

fn push_finding(out: &Shared, f: Finding) {
    with_out(out, |o| {
        if o.findings.len() < 12 {
            o.findings.push(f);
        }
    });
}

fn opts(fs: &Arc<Traced>, path: &Path, k: &Knobs) -> DbOptions {
    opts_create(fs, path, k, true)
}

fn opts_create(fs: &Arc<Traced>, path: &Path, k: &Knobs, create_if_missing: bool) -> DbOptions {
    DbOptions {
        db_path: path.to_str().unwrap().to_owned(),
        max_memtable_size: k.max_memtable_size,
        max_file_size: k.max_file_size,
        max_block_size: k.max_block_size,
        filesystem_provider: fs.clone(),
        filter_policy: Arc::new(BloomFilterPolicy::new(k.bloom_bits)),
        block_cache: raindb::verif_api::new_block_cache(16),
        create_if_missing,
        error_if_exists: false,
        reuse_log_files: k.reuse_log_files,
    }
}

/// Harness-side rendezvous on simulated primitives: (number of close events so far, lockers that
/// are neither finished nor waiting).
struct CloseSignal {
    state: shuttle::sync::Mutex<(u64, usize)>,
    cv: shuttle::sync::Condvar,
}

impl CloseSignal {
    fn event(&self) {
        self.state.lock().unwrap().0 += 1;
        self.cv.notify_all();
    }
    fn finished(&self) {
        self.state.lock().unwrap().1 -= 1;
        self.cv.notify_all();
    }
    /// Wait for the next close event; gives up when every other locker is finished or waiting too.
    fn wait_for_close(&self) {
        let mut g = self.state.lock().unwrap();
        let seen = g.0;
        g.1 -= 1;
        self.cv.notify_all();
        while g.0 == seen && g.1 > 0 {
            g = self.cv.wait(g).unwrap();
        }
        g.1 += 1;
    }
}

struct Ctx {
    close_signal: Arc<CloseSignal>,
    fs: Arc<Traced>,
    path: PathBuf,
    knobs: Knobs,
    owners: Arc<Mutex<Owners>>,
    out: Shared,
}

impl Ctx {
    /// Try to open; on success register as owner, write and read back the own key.
    fn try_open(&self, task: usize, round: u32) -> Option<DB> {
        self.try_open_with(task, round, true)
    }

    fn try_open_with(&self, task: usize, round: u32, create_if_missing: bool) -> Option<DB> {
        let before: BTreeSet<usize> = self.owners.lock().unwrap().current.clone();
        let o = opts_create(&self.fs, &self.path, &self.knobs, create_if_missing);
        let existing_tasks = rt::spawned_count();
        let t0 = rt::next_seq();
        {
            let mut g = self.owners.lock().unwrap();
            g.active_opens += 1;
            if g.active_destroys > 0 {
                with_out(&self.out, |o| o.stats.probe("destroy_overlapped_open"));
            }
        }
        let r = call("open", || DB::open(o));
        let t1 = rt::next_seq();
        {
            let mut g = self.owners.lock().unwrap();
            g.active_opens -= 1;
            g.open_calls.push((t0, t1));
            g.open_calls_by.push((t0, t1, rt::current_task(), matches!(r, Called::Ok(Ok(_)))));
            if matches!(r, Called::Ok(Ok(_))) {
                // ownership starts when the file lock was granted inside this open call (the
                // recovery that follows already relies on being the only instance)
                let me = rt::current_task();
                let granted = self.fs.locks.lock().unwrap().iter().rev().find(|(s, t)| *t == me && *s > t0).map(|(s, _)| *s).unwrap_or(t1);
                g.open_now.insert(task, (existing_tasks, granted));
            }
        }
        match r {
            Called::Ok(Ok(db)) => {
                let now: BTreeSet<usize> = {
                    let mut g = self.owners.lock().unwrap();
                    let cur = g.current.clone();
                    g.current.insert(task);
                    g.opens_ok += 1;
                    cur
                };
                // an owner that held the database for the whole duration of this open call
                let overlapping: Vec<usize> = before.intersection(&now).copied().collect();
                if !overlapping.is_empty() {
                    push_finding(&self.out, Finding::new(&["C17"], "second-open-succeeded", "", format!("task {} opened the database although task(s) {:?} held it open during the whole call", task, overlapping), None));
                }
                let key = format!("owner-{}", task).into_bytes();
                let val = format!("v{}.{}", task, round).into_bytes();
                match call("put", || db.put(WriteOptions::default(), key.clone(), val.clone())) {
                    Called::Ok(Ok(())) => {}
                    Called::Ok(Err(e)) => {
                        if overlapping.is_empty() {
                            push_finding(&self.out, Finding::new(&["C17"], "owner-not-functional", "put", format!("task {} owns the database but its write failed: {:?}", task, e), None));
                        }
                    }
                    Called::Panicked { .. } => {}
                }
                Some(db)
            }
            Called::Ok(Err(_)) => {
                let mut g = self.owners.lock().unwrap();
                g.opens_refused += 1;
                None
            }
            Called::Panicked { .. } => None,
        }
    }

    fn check_owner(&self, task: usize, round: u32, db: &DB, destroyed_ok_since_open: bool) {
        let key = format!("owner-{}", task).into_bytes();
        let val = format!("v{}.{}", task, round).into_bytes();
        if let Called::Ok(r) = call("get", || db.get(ReadOptions::default(), &key)) {
            match r {
                Ok(v) if v == val => {}
                other => {
                    if !destroyed_ok_since_open {
                        push_finding(&self.out, Finding::new(&["C17"], "running-instance-disturbed", "get", format!("task {} holds the database open but reading back its own key returned {:?} (expected the value it wrote)", task, other.map(|v| String::from_utf8_lossy(&v).to_string())), None));
                    }
                }
            }
        }
    }

    fn close(&self, task: usize, db: DB) {
        {
            let mut g = self.owners.lock().unwrap();
            g.current.remove(&task);
            let me = rt::current_task();
            let at = rt::next_seq();
            g.closes_by.push((me, at));
            if let Some((existing, opened)) = g.open_now.remove(&task) {
                let now = rt::next_seq();
                g.intervals.push((task, existing, opened, now));
            }
        }
        self.close_signal.event();
        let _ = call("drop", move || drop(db));
    }

    fn destroy(&self, task: usize) -> bool {
        let before: BTreeSet<usize> = self.owners.lock().unwrap().current.clone();
        let o = opts(&self.fs, &self.path, &self.knobs);
        let t0 = rt::next_seq();
        {
            let mut g = self.owners.lock().unwrap();
            g.active_destroys += 1;
            if g.active_opens > 0 {
                with_out(&self.out, |o| o.stats.probe("destroy_overlapped_open"));
            }
        }
        let r = call("destroy_database", || DB::destroy_database(o));
        let t1 = rt::next_seq();
        self.owners.lock().unwrap().active_destroys -= 1;
        self.owners.lock().unwrap().destroy_calls.push((t0, t1));
        self.owners.lock().unwrap().destroy_calls_by.push((t0, t1, rt::current_task()));
        let after: BTreeSet<usize> = self.owners.lock().unwrap().current.clone();
        match r {
            Called::Ok(Ok(())) => {
                self.owners.lock().unwrap().destroy_ok += 1;
                let overlapping: Vec<usize> = before.intersection(&after).copied().collect();
                if !overlapping.is_empty() {
                    push_finding(&self.out, Finding::new(&["C17"], "destroy-succeeded-while-open", "", format!("task {}: destroy_database returned Ok although task(s) {:?} held the database open during the whole call", task, overlapping), None));
                }
                true
            }
            Called::Ok(Err(_)) => {
                self.owners.lock().unwrap().destroy_refused += 1;
                false
            }
            Called::Panicked { .. } => false,
        }
    }
}

pub fn body(case: &Case, out: &Shared) {
    let Some(plan) = case.lock_plan.clone() else { return };
    let tmp = TmpFileSystem::new(None);
    let root = tmp.get_root_path();
    let path = root.join("db");
    let fs = Arc::new(Traced { inner: tmp, calls: Mutex::new(0), mutations: Arc::new(Mutex::new(vec![])), locks: Mutex::new(vec![]), fail_wal_appends: Arc::new(std::sync::atomic::AtomicU32::new(0)) });
    if plan.tasks.iter().flatten().any(|o| matches!(o, LOp::Scan(_))) {
        // sampled seek compactions within reach of a few scans
        rt::with_ctx(|c| {
            c.knobs.insert("iteration_read_bytes_period".into(), 200);
            c.knobs.insert("min_allowed_seeks".into(), 2);
        });
    }
    let owners = Arc::new(Mutex::new(Owners::default()));
    let close_signal = Arc::new(CloseSignal { state: shuttle::sync::Mutex::new((0, plan.tasks.len())), cv: shuttle::sync::Condvar::new() });
    let knobs = case.plan.opens.first().cloned().unwrap_or_else(|| Knobs::gen(&mut crate::rng::Rng::new(case.run_seed)));
    let n = plan.tasks.len();
    let barrier = Arc::new(shuttle::sync::Barrier::new(n));
    let winners = Arc::new(Mutex::new(0usize));
    // shuttle task ids of the locker tasks themselves (ids are handed out in spawn order, and a
    // locker may open the database - spawning a worker - before the next locker is spawned)
    let locker_ids: Arc<Mutex<BTreeSet<usize>>> = Arc::new(Mutex::new(BTreeSet::new()));
    let main_phase_done = Arc::new(std::sync::atomic::AtomicBool::new(false));
    let mut hs = vec![];
    for (t, ops) in plan.tasks.iter().cloned().enumerate() {
        let ctx = Ctx { close_signal: Arc::clone(&close_signal), fs: fs.clone(), path: path.clone(), knobs: knobs.clone(), owners: owners.clone(), out: Arc::clone(out) };
        let barrier = Arc::clone(&barrier);
        let winners = Arc::clone(&winners);
        let racers = plan.final_racers;
        let locker_ids2 = Arc::clone(&locker_ids);
        let done = Arc::clone(&main_phase_done);
        let h = rt::thread::Builder::new()
            .name(format!("locker-{}", t))
            .spawn(move || {
                locker_ids2.lock().unwrap().insert(rt::current_task());
                let mut db: Option<DB> = None;
                let mut round = 0u32;
                // an I/O error was injected into the instance this task currently owns
                let mut faulted = false;
                for op in &ops {
                    if rt::is_poisoned() {
                        break;
                    }
                    rt::sched_point(rt::YieldKind::Client);
                    with_out(&ctx.out, |o| o.stats.ops += 1);
                    match op {
                        LOp::Open => {
                            if db.is_none() {
                                round += 1;
                                db = ctx.try_open(t, round);
                            }
                        }
                        LOp::OpenExisting => {
                            if db.is_none() {
                                round += 1;
                                db = ctx.try_open_with(t, round, false);
                                with_out(&ctx.out, |o| o.stats.probe("open_without_create"));
                            }
                        }
                        LOp::Hold(k) => {
                            for _ in 0..*k {
                                rt::sched_point(rt::YieldKind::Client);
                                if let Some(d) = db.as_ref() {
                                    ctx.check_owner(t, round, d, false);
                                }
                            }
                        }
                        LOp::Close => {
                            if let Some(d) = db.take() {
                                ctx.close(t, d);
                                faulted = false;
                            }
                        }
                        LOp::Destroy => {
                            if db.is_none() {
                                ctx.destroy(t);
                            }
                        }
                        LOp::Align { mask, nth } => rt::align_request(*mask, *nth),
                        LOp::Settle => {
                            if let Some(d) = db.as_ref() {
                                let _ = call("quiesce", || d.verif_wait_quiescent());
                            }
                        }
                        LOp::OpenAfterClose => {
                            if db.is_none() {
                                ctx.close_signal.wait_for_close();
                                round += 1;
                                db = ctx.try_open(t, round);
                                with_out(&ctx.out, |o| o.stats.probe("open_attempt_right_after_a_close_began"));
                            }
                        }
                        LOp::Scan(k) => {
                            if let Some(d) = db.as_ref() {
                                // stop reading the moment a read sample exhausts a file's seek
                                // allowance (reach probe of hook H8): whatever comes next in the
                                // plan - typically the close - then races the compaction that the
                                // sample has just asked for
                                let sampled = || rt::with_ctx(|c| c.probes.get("read_sample_exhausted_seeks").copied().unwrap_or(0));
                                let before = sampled();
                                for _ in 0..*k {
                                    rt::sched_point(rt::YieldKind::Client);
                                    let _ = call("scan", || {
                                        if let Ok(mut it) = d.new_iterator(ReadOptions::default()) {
                                            let _ = it.seek_to_first();
                                            let mut n = 0;
                                            while it.is_valid() && n < 400 && sampled() == before {
                                                n += 1;
                                                if it.next().is_none() {
                                                    break;
                                                }
                                            }
                                        }
                                    });
                                    with_out(&ctx.out, |o| o.stats.probe("owner_scans"));
                                    if sampled() != before {
                                        with_out(&ctx.out, |o| o.stats.probe("owner_scan_cut_at_exhausted_seek_allowance"));
                                        break;
                                    }
                                }
                            }
                        }
                        LOp::FaultPut => {
                            if let Some(d) = db.as_ref() {
                                ctx.fs.fail_wal_appends.store(1, std::sync::atomic::Ordering::SeqCst);
                                let key = format!("fault-{}", t).into_bytes();
                                let r = call("put", || d.put(WriteOptions::default(), key, vec![b'f'; 60]));
                                // whatever was not consumed is disarmed again
                                ctx.fs.fail_wal_appends.store(0, std::sync::atomic::Ordering::SeqCst);
                                if matches!(r, Called::Ok(Err(_))) {
                                    faulted = true;
                                    with_out(&ctx.out, |o| o.stats.probe("owner_write_failed_by_injected_fault"));
                                }
                            }
                        }
                        LOp::Burst(k) => {
                            if let Some(d) = db.as_ref() {
                                for j in 0..*k {
                                    let key = format!("burst-{}-{}", t, j % 7).into_bytes();
                                    let val = vec![b'a' + (j % 26) as u8; 120];
                                    // "does not disturb the running instance": the owner's writes
                                    // (and the flushes they trigger) keep working
                                    if let Called::Ok(Err(e)) = call("put", || d.put(WriteOptions::default(), key, val)) {
                                        if faulted {
                                            // after an injected I/O error the instance may refuse writes
                                            break;
                                        }
                                        push_finding(&ctx.out, Finding::new(&["C17"], "owner-not-functional", "burst", format!("task {} owns the database but write {} of a burst failed: {:?}", t, j, e), None));
                                        break;
                                    }
                                }
                            }
                        }
                    }
                }
                if let Some(d) = db.take() {
                    ctx.close(t, d);
                }
                ctx.close_signal.finished();
                // ---- final phase: everybody closed; the first `racers` tasks race open ----
                done.store(true, std::sync::atomic::Ordering::SeqCst);
                barrier.wait();
                let mut mine: Option<DB> = None;
                if t < racers && !rt::is_poisoned() {
                    mine = ctx.try_open(t, round + 1);
                    if mine.is_some() {
                        *winners.lock().unwrap() += 1;
                    }
                }
                barrier.wait();
                if let Some(d) = mine.take() {
                    ctx.check_owner(t, round + 1, &d, false);
                    ctx.close(t, d);
                }
            })
            .expect("spawn locker");
        hs.push(h);
    }
    // lock prober (main phase only)
    let prober = if plan.probes > 0 {
        let (fs2, path2, done2, probes) = (fs.clone(), path.clone(), Arc::clone(&main_phase_done), plan.probes);
        Some(
            rt::thread::Builder::new()
                .name("lock-prober".into())
                .spawn(move || {
                    let lock_path = path2.join("LOCK");
                    for _ in 0..probes {
                        rt::sched_point(rt::YieldKind::Client);
                        if done2.load(std::sync::atomic::Ordering::SeqCst) || rt::is_poisoned() {
                            break;
                        }
                        if !path2.exists() {
                            continue;
                        }
                        // try-lock and release at once (no scheduling point in between)
                        if let Ok(l) = fs2.inner.lock_file(&lock_path) {
                            fs2.locks.lock().unwrap().push((rt::next_seq(), rt::current_task()));
                            drop(l);
                        }
                    }
                })
                .expect("spawn prober"),
        )
    } else {
        None
    };
    for h in hs {
        let _ = h.join();
    }
    if let Some(p) = prober {
        let _ = p.join();
    }
    let w = *winners.lock().unwrap();
    if !rt::is_poisoned() && plan.final_racers >= 1 && w != 1 {
        push_finding(out, Finding::new(&["C17"], "final-race-winners", &format!("{}", w.min(2)), format!("after every handle was closed {} tasks raced DB::open and held their handle: {} succeeded (exactly one must)", plan.final_racers, w), None));
    }
    let g = owners.lock().unwrap();
    // destroy_database releases its lock and only then unlinks LOCK; an open that overlaps a
    // destroy call can therefore slip in (see known_findings.json). Findings of such runs get a
    // distinguishing signature suffix so that violations without any destroy/open overlap are
    // never confused with it.
    let raced = g.destroy_calls.iter().any(|d| g.open_calls.iter().any(|o| o.0 < d.1 && d.0 < o.1));
    // A worker thread belongs to the instance whose DB::open spawned it. Everything it creates,
    // writes, renames or removes must happen while that instance holds the file lock. If somebody
    // else (another opener, destroy_database or the harness's lock prober) was GRANTED the lock
    // after the instance's own grant and the worker still mutates files afterwards, the instance
    // gave up the lock before its background work had finished.
    if !rt::is_poisoned() {
        let muts = fs.mutations.lock().unwrap();
        let grants = fs.locks.lock().unwrap();
        let lockers = locker_ids.lock().unwrap().clone();
        let _ = n;
        'outer: for (m, w, what) in muts.iter() {
            if *w == 0 || *w == usize::MAX || lockers.contains(w) {
                continue;
            }
            let Some((parent, spawn_seq)) = rt::spawn_parent_of(*w) else { continue };
            if !lockers.contains(&parent) {
                continue;
            }
            // the grant of the open call that spawned this worker
            let Some((own_grant, _)) = grants.iter().find(|(s, t)| *t == parent && *s > spawn_seq).copied() else { continue };
            if let Some((other_seq, other)) = grants.iter().find(|(s, t)| *t != parent && *s > own_grant && *s < *m).copied() {
                push_finding(
                    out,
                    Finding::new(
                        &["C17"],
                        "previous-instance-still-active",
                        what,
                        format!("the worker thread (task {}) of the instance opened by task {} (lock granted at event {}) performed {} at event {}, although task {} had been granted the lock at event {}: the instance gave up the lock before its background work had finished", w, parent, own_grant, what, m, other, other_seq),
                        None,
                    ),
                );
                break 'outer;
            }
        }
        if std::env::var_os("RAINSIM_DEBUG_LOCK").is_some() {
            eprintln!("lockers={:?} grants={:?} muts={:?}", lockers, &grants[..grants.len().min(40)], &muts[..muts.len().min(60)]);
        }
    }
    // destroy_database releases its lock and only then unlinks LOCK; an open that overlaps a
    // destroy call can therefore slip in (see known_findings.json). Findings of such runs get a
    // distinguishing signature suffix so that violations without any destroy/open overlap are
    // never confused with it.
    let raced = g.destroy_calls.iter().any(|d| g.open_calls.iter().any(|o| o.0 < d.1 && d.0 < o.1));
    with_out(out, |o| {
        for f in o.findings.iter_mut() {
            if f.concerns("C17") && !f.signature.contains("destroy-overlap") {
                f.signature.push_str(if raced { "|destroy-overlapped-open" } else { "|no-destroy-overlap" });
            }
        }
        if raced {
            o.stats.probe("destroy_overlapped_open");
        }
    });
    // "destroy_database refuses to act while a database is open": destroy must hold the file lock
    // for as long as it removes database files. If another task's DB::open was granted the lock
    // after the destroy call began, returned Ok and had not begun to close when destroy removed a
    // WAL / table directory or a CURRENT / manifest file, destroy acted on an open database. (The
    // removal of the LOCK file and of the emptied directory after destroy released its lock is the
    // known finding above and is not counted here.) Pushed after the suffix loop: this class needs
    // no destroy/open overlap qualifier, it is that overlap.
    if !rt::is_poisoned() {
        let muts = fs.mutations.lock().unwrap();
        let grants = fs.locks.lock().unwrap();
        'destroy: for (d0, d1, dt) in g.destroy_calls_by.iter() {
            for (m, w, what) in muts.iter() {
                if *w != *dt || *m <= *d0 || *m >= *d1 || !matches!(*what, "remove_dir_all" | "remove_file") {
                    continue;
                }
                for (gs, u) in grants.iter() {
                    if *u == *dt || *gs <= *d0 || *gs >= *m {
                        continue;
                    }
                    // the open call of task u that contains this grant must have succeeded ...
                    let Some((_, o1, _, true)) = g.open_calls_by.iter().find(|(o0, o1, t, _)| *t == *u && *o0 < *gs && *gs < *o1).copied() else { continue };
                    // ... and its handle must still be open at the time of the removal
                    let closed_before = g.closes_by.iter().any(|(t, c)| *t == *u && *c > o1 && *c < *m);
                    if closed_before {
                        continue;
                    }
                    // Did this destroy call itself get a lock, and was the NAME `LOCK` unlinked (by an
                    // earlier destroy_database, after releasing its own lock) between the owner's
                    // grant and this one (in either order)? Then the two hold locks on two different inodes: that is
                    // the known finding (unlink after unlock), seen through a second destroy call
                    // instead of a second open - it carries the known finding's qualifier. Without
                    // such an unlink the destroy call removed files while somebody else validly held
                    // the one lock file, which stands on its own.
                    let own_grant = grants.iter().find(|(s, t)| *t == *dt && *s > *d0 && *s < *m).map(|(s, _)| *s);
                    let unlinked_between = own_grant.map(|dg| muts.iter().any(|(s, _, w2)| *w2 == "remove_lock_file" && *s > (*gs).min(dg) && *s < (*gs).max(dg))).unwrap_or(false);
                    let detail = if unlinked_between { format!("{}|lock-name-unlinked-after-the-owners-grant|destroy-overlapped-open", what) } else { what.to_string() };
                    if unlinked_between {
                        with_out(out, |o| o.stats.probe("destroy_locked_a_fresh_lock_file_after_an_unlink"));
                    }
                    push_finding(
                        out,
                        Finding::new(
                            &["C17"],
                            "destroy-acted-on-open-database",
                            &detail,
                            format!("destroy_database called by task {} (events {}..{}) performed {} at event {} although task {} had been granted the file lock at event {} inside a DB::open that succeeded and whose handle was still open{}", dt, d0, d1, what, m, u, gs, if unlinked_between { ": the name LOCK was unlinked in between (by another destroy_database call, after it had released its lock), so the two calls hold locks on two different inodes" } else { ": destroy does not hold the lock while it removes the database files" }),
                            None,
                        ),
                    );
                    break 'destroy;
                }
            }
        }
    }
    // The mutual exclusion of C17 rests on flock() of the file *named* LOCK: whoever unlinks that
    // name while an open call is in progress (its own or, having been refused, somebody else's
    // lock) lets the next opener lock a fresh inode although the old one is still locked - two
    // owners. Racing openers rarely line up with the two or three filesystem calls in question, so
    // the unlink itself is reported: a DB::open call must never remove the LOCK file.
    if !rt::is_poisoned() {
        let muts = fs.mutations.lock().unwrap();
        'unlink: for (o0, o1, ot, ok) in g.open_calls_by.iter() {
            for (m, w, what) in muts.iter() {
                if *w == *ot && *m > *o0 && *m < *o1 && *what == "remove_lock_file" {
                    push_finding(
                        out,
                        Finding::new(
                            &["C17"],
                            "lock-file-unlinked-by-open",
                            if *ok { "open-ok" } else { "open-failed" },
                            format!("the DB::open call of task {} (events {}..{}, returned {}) removed the LOCK file at event {}: the file lock is bound to the inode, so from this moment a second DB::open locks a fresh LOCK file and succeeds while the first lock is still held", ot, o0, o1, if *ok { "Ok" } else { "an error" }, m),
                            None,
                        ),
                    );
                    break 'unlink;
                }
            }
        }
    }
    let calls = *fs.calls.lock().unwrap();
    with_out(out, |o| {
        o.stats.fs_calls += calls;
        o.stats.bump("opens_succeeded", g.opens_ok);
        o.stats.bump("opens_refused", g.opens_refused);
        o.stats.bump("destroy_refused", g.destroy_refused);
        o.stats.bump("destroy_succeeded", g.destroy_ok);
        if g.opens_refused > 0 {
            o.stats.probe("open_refused_while_owned");
        }
        if g.destroy_refused > 0 {
            o.stats.probe("destroy_refused_while_owned");
        }
        if g.destroy_ok > 0 {
            o.stats.probe("destroy_succeeded_when_closed");
        }
        // non-trivial = some contention actually happened
        if g.opens_refused + g.destroy_refused > 0 {
            o.stats.tables_created += 1;
            o.stats.table_reads += 1;
        }
        o.stats.shapes.push(vec![g.opens_ok.min(9) as usize, g.opens_refused.min(9) as usize, g.destroy_refused.min(9) as usize, g.destroy_ok.min(9) as usize, w]);
        o.completed = !rt::is_poisoned();
    });
    drop(g);
    // best effort: the TempDir inside `fs` removes the directory when the last Arc drops
    let _ = root;
}

/// Classification of C17 findings by "did a destroy_database call overlap a DB::open call in this
/// run" (the known finding needs such an overlap). Applied to the result of every lock-race
/// execution, also one that was cut short, from the probe set at the moment an overlap began.
pub fn classify_findings(res: &mut crate::exec::CaseResult) {
    let raced = res.stats.probes.get("destroy_overlapped_open").copied().unwrap_or(0) > 0;
    for f in res.findings.iter_mut() {
        // the two structural oracles stand on their own: what they report is wrong whether or not a
        // destroy call overlapped an open call, so they never carry the known finding's qualifier
        if matches!(f.class.as_str(), "destroy-acted-on-open-database" | "lock-file-unlinked-by-open") {
            continue;
        }
        if f.concerns("C17") && !f.signature.contains("destroy-overlap") {
            f.signature.push_str(if raced { "|destroy-overlapped-open" } else { "|no-destroy-overlap" });
        }
    }
}

pub fn gen_plan(rng: &mut crate::rng::Rng, thorough: bool) -> LockPlan {
    // scans (sampled seek compactions scheduled by a reader) and injected write-ahead-log faults are
    // added by a pass of its own over the plan drawn below (own stream: the rest is unchanged)
    let mut xr = rng.fork("lock-extra");
    let mut plan = gen_plan_base(rng, thorough);
    let scans = xr.chance(1, 4);
    let faults = xr.chance(1, 6);
    let aligns = xr.chance(1, 3);
    let after_close = xr.chance(1, 2);
    for ops in plan.tasks.iter_mut() {
        let mut out = Vec::with_capacity(ops.len() + 2);
        for op in ops.drain(..) {
            let burst = matches!(op, LOp::Burst(_));
            let op = if after_close && matches!(op, LOp::Open) && xr.chance(1, 3) { LOp::OpenAfterClose } else { op };
            if matches!(op, LOp::Close) && faults && xr.chance(1, 2) {
                out.push(LOp::FaultPut);
            }
            if matches!(op, LOp::Close | LOp::Open | LOp::Destroy) && aligns && xr.chance(1, 2) {
                // close / open / destroy start while a worker thread sits in a filesystem call, has
                // just released the database mutex, or is inside an unlocked section
                let mask = *xr.pick(&[1u16 << 3, 1 << 3, 1 << 8, 0b110, 0x1ff]) | if xr.chance(2, 3) { crate::sched::ALIGN_HOLD } else { 0 };
                out.push(LOp::Align { mask, nth: *xr.pick(&[1u32, 1, 2, 3, 5, 9]) });
            }
            out.push(op);
            if burst && scans && xr.chance(2, 3) {
                if xr.chance(1, 2) {
                    out.push(LOp::Settle);
                }
                out.push(LOp::Scan(1 + xr.below(4) as u32));
            }
        }
        *ops = out;
    }
    plan
}

fn gen_plan_base(rng: &mut crate::rng::Rng, thorough: bool) -> LockPlan {
    let n = rng.range(2, if thorough { 4 } else { 3 }) as usize;
    if rng.chance(2, 5) {
        // template: one owner closes while its background work is in flight, the others keep
        // trying to open (the window between "close began" and "close finished")
        let mut tasks = vec![vec![LOp::Open, LOp::Burst(30 + rng.below(120) as u32), LOp::Close, LOp::Hold(1), LOp::Open]];
        for _ in 1..n {
            let tries = rng.range(2, 6) as usize;
            let mut ops = vec![];
            for _ in 0..tries {
                ops.push(if rng.chance(1, 6) { LOp::OpenExisting } else { LOp::Open });
                if rng.chance(1, 3) {
                    ops.push(LOp::Hold(1));
                }
            }
            if rng.chance(1, 2) {
                ops.push(LOp::Burst(5 + rng.below(20) as u32));
            }
            tasks.push(ops);
        }
        return LockPlan { tasks, final_racers: rng.range(1, n as u64) as usize, probes: if rng.chance(2, 3) { 20 + rng.below(200) as u32 } else { 0 } };
    }
    if rng.chance(1, 6) {
        // template: the path holds no database; some tasks open it without create_if_missing (and
        // fail) while another creates it, writes more than a memtable and keeps using it
        // (the creator retries: while a failing opener still holds the lock it is refused)
        let mut tasks = vec![vec![LOp::Open, LOp::Open, LOp::Open, LOp::Open, LOp::Burst(40 + rng.below(100) as u32), LOp::Hold(2), LOp::Burst(10 + rng.below(40) as u32), LOp::Close]];
        for _ in 1..n {
            let mut ops = vec![];
            for _ in 0..rng.range(1, 4) {
                ops.push(LOp::OpenExisting);
                if rng.chance(1, 2) {
                    ops.push(LOp::Close);
                }
            }
            tasks.push(ops);
        }
        if rng.chance(1, 3) {
            // ... after a destroy instead of on a fresh path
            tasks[0].splice(0..0, [LOp::Open, LOp::Close, LOp::Destroy]);
        }
        return LockPlan { tasks, final_racers: rng.range(1, n as u64) as usize, probes: 0 };
    }
    let mut tasks = vec![];
    for _ in 0..n {
        let len = rng.range(2, if thorough { 10 } else { 6 }) as usize;
        let mut ops = vec![];
        for _ in 0..len {
            ops.push(match rng.weighted(&[34, 20, 22, 8, 12, 6]) {
                5 => LOp::OpenExisting,
                0 => LOp::Open,
                1 => LOp::Hold(1 + rng.below(3) as u32),
                2 => LOp::Close,
                3 => LOp::Destroy,
                _ => LOp::Burst(8 + rng.below(40) as u32),
            });
        }
        tasks.push(ops);
    }
    LockPlan { tasks, final_racers: rng.range(1, n as u64) as usize, probes: if rng.chance(1, 3) { 10 + rng.below(100) as u32 } else { 0 } }
}
