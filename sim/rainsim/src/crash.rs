//! `crash` engine: a single-writer base run is recorded (client history + totally ordered log of
//! mutating filesystem operations); then for crash points = prefixes of that log (C02), or a
//! prefix plus a torn final write (C16), the image is materialised and a recovery simulation runs
//! on it: open, shape (C10) and directory (C11) checks, full scan + gets against the model of
//! everything acknowledged before the crash (in-flight batch all-or-nothing), further writes, clean
//! close, reopen, re-check. With seeded probability the recovery run itself is crashed (nested).

use crate::exec::{Case, RunOutput, Shared};
use crate::hist::{check_shape, dir_diff};
use crate::plan::{Knobs, Op, Plan};
use crate::rng::{mix2, Rng};
use crate::simfs::{classify, FileClass, FsState, LoggedOp, MutOp, SimFs};
use crate::world::*;
use raindb::{Batch, WriteOptions, DB};
use raindb_verif_rt as rt;
use std::collections::BTreeMap;
use std::sync::Arc;

type Items = Vec<(Vec<u8>, Option<Vec<u8>>)>;

#[derive(Clone, Debug)]
struct WriteRec {
    inv_len: usize,
    ret_len: usize,
    items: Items,
}

fn with_out<R>(out: &Shared, f: impl FnOnce(&mut RunOutput) -> R) -> R {
    f(&mut out.lock().unwrap())
}

fn push_finding(out: &Shared, f: Finding) {
    with_out(out, |o| {
        if o.findings.len() < 50 {
            o.findings.push(f);
        }
    });
}

fn apply_items(m: &mut Kv, items: &Items) {
    for (k, v) in items {
        match v {
            Some(v) => {
                m.insert(k.clone(), v.clone());
            }
            None => {
                m.remove(k);
            }
        }
    }
}

fn describe(op: Option<&LoggedOp>) -> String {
    match op.map(|o| &o.op) {
        None => "<start>".into(),
        Some(MutOp::Create { path, .. }) => format!("create {}", path.display()),
        Some(MutOp::Truncate { inode }) => format!("truncate inode {}", inode),
        Some(MutOp::Write { inode, data }) => format!("write {} B to inode {}", data.len(), inode),
        Some(MutOp::Rename { from, to }) => format!("rename {} -> {}", from.display(), to.display()),
        Some(MutOp::Remove { path }) => format!("remove {}", path.display()),
        Some(MutOp::Mkdir { path }) => format!("mkdir {}", path.display()),
        Some(MutOp::Rmdir { path }) => format!("rmdir {}", path.display()),
        Some(MutOp::RemoveDirAll { path }) => format!("rm -r {}", path.display()),
    }
}

/// (op kind, file class) of the op right before the crash point: the coverage key of a crash point.
fn point_class(st: &FsState, inode_paths: &BTreeMap<u64, std::path::PathBuf>, op: Option<&LoggedOp>) -> String {
    let _ = st;
    match op.map(|o| &o.op) {
        None => "start".into(),
        Some(MutOp::Create { path, .. }) => format!("create:{}", crate::exec::class_name(classify(path))),
        Some(MutOp::Truncate { inode }) => format!("truncate:{}", inode_paths.get(inode).map(|p| crate::exec::class_name(classify(p))).unwrap_or("?")),
        Some(MutOp::Write { inode, .. }) => format!("write:{}", inode_paths.get(inode).map(|p| crate::exec::class_name(classify(p))).unwrap_or("?")),
        Some(MutOp::Rename { to, .. }) => format!("rename:{}", crate::exec::class_name(classify(to))),
        Some(MutOp::Remove { path }) => format!("remove:{}", crate::exec::class_name(classify(path))),
        Some(MutOp::Mkdir { .. }) => "mkdir".into(),
        Some(MutOp::Rmdir { .. }) | Some(MutOp::RemoveDirAll { .. }) => "rmdir".into(),
    }
}

struct Recovery<'a> {
    out: &'a Shared,
    plan: &'a Plan,
    torn: bool,
    run_seed: u64,
}

struct Expect {
    acked: Kv,
    /// batches that may or may not have taken effect, each as a whole, in order
    optional: Vec<Items>,
}

impl Expect {
    /// All states the recovered database may legitimately show.
    fn candidates(&self) -> Vec<Kv> {
        let n = self.optional.len().min(4);
        let mut out = vec![];
        for mask in 0..(1u32 << n) {
            let mut m = self.acked.clone();
            for (i, it) in self.optional.iter().take(n).enumerate() {
                if mask & (1 << i) != 0 {
                    apply_items(&mut m, it);
                }
            }
            out.push(m);
        }
        out
    }
}

impl<'a> Recovery<'a> {
    /// Returns false if the violation budget of the run is exhausted.
    fn check_image(&self, state: &FsState, expect: &Expect, label: &str, point: usize, depth: u32, rng: &mut Rng) {
        let props_main: &[&str] = if self.torn { &["C16"] } else { &["C02"] };
        let knobs = {
            let mut k = Knobs::gen(rng);
            // both reuse settings; sizes possibly changed
            k.reuse_log_files = rng.chance(1, 2);
            if rng.chance(1, 2) {
                k.max_memtable_size = self.plan.opens[0].max_memtable_size;
                k.max_file_size = self.plan.opens[0].max_file_size;
            }
            k
        };
        let fs = Arc::new(SimFs::from_state(state.clone()));
        fs.set_record_calls(false);
        with_out(self.out, |o| o.stats.bump("recovery_checks", 1));
        let opts = options(fs.clone(), &knobs, true);
        let db = match call("open", || DB::open(opts)) {
            Called::Ok(Ok(db)) => db,
            Called::Ok(Err(e)) => {
                let mut props: Vec<&str> = props_main.to_vec();
                if format!("{:?}", e).contains("missing files") {
                    props.push("C11");
                }
                push_finding(self.out, Finding::new(&props, "recovery-open-failed", &format!("{}|{}", label_class(label), err_signature(&e)), format!("crash point {} ({}; depth {}, reuse_log_files={}): DB::open failed with {:?}", point, label, depth, knobs.reuse_log_files, e), Some(point)));
                return;
            }
            Called::Panicked { message, location } => {
                push_finding(self.out, Finding::new(props_main, "recovery-panic", &format!("{}|{}", label_class(label), panic_signature(&message, &location)), format!("crash point {} ({}; depth {}): DB::open panicked: {} at {}", point, label, depth, message, location), Some(point)));
                return;
            }
        };
        // C10 + C11 on the recovered image, before any read of ours can pin a version
        let mut ok = true;
        match call("quiesce", || db.verif_wait_quiescent()) {
            Called::Ok(true) => {
                if let Called::Ok(shape) = call("shape", || db.verif_shape()) {
                    let o2 = db.verif_options().clone();
                    let mut fnd = vec![];
                    fs.set_tag(1);
                    let per_level = check_shape(&shape, &mut fnd, |n| raindb::verif_api::table_entries(&o2, n));
                    fs.set_tag(0);
                    with_out(self.out, |o| {
                        o.stats.shape_checks += 1;
                        if o.stats.shapes.len() < 64 {
                            o.stats.shapes.push(per_level.to_vec());
                        }
                    });
                    for mut f in fnd {
                        f.op_index = Some(point);
                        f.detail = format!("recovered image of crash point {} ({}): {}", point, label, f.detail);
                        push_finding(self.out, f);
                    }
                    with_out(self.out, |o| o.stats.dir_checks += 1);
                    if let Some(d) = dir_diff(&fs, &shape) {
                        if !d.missing.is_empty() {
                            push_finding(self.out, Finding::new(&["C11"], "needed-file-missing", &d.missing_classes(), format!("recovered image of crash point {} ({}): needed files missing: {:?}", point, label, d.missing), Some(point)));
                        }
                        if !d.extra.is_empty() {
                            push_finding(self.out, Finding::new(&["C11"], "obsolete-file-kept", &format!("after-recovery|{}", d.extra_classes()), format!("recovered image of crash point {} ({}): files left behind by the crash were not reclaimed at open: {:?}; needed = {:?}", point, label, d.extra, d.needed), Some(point)));
                        }
                    }
                }
            }
            Called::Ok(false) => {
                push_finding(self.out, Finding::new(props_main, "recovery-bg-error", label_class(label), format!("crash point {} ({}): background error after recovery: {:?}", point, label, db.verif_shape().bad_state), Some(point)));
                ok = false;
            }
            Called::Panicked { .. } => ok = false,
        }
        let mut observed: Option<Kv> = None;
        if ok {
            match call("scan", || scan_forward(&db, None)) {
                Called::Ok(Ok(d)) => {
                    let got: Kv = d.iter().cloned().collect();
                    let cands = expect.candidates();
                    if !cands.iter().any(|c| *c == got) {
                        let diff = diff_kv(&d, &expect.acked).unwrap_or_default();
                        push_finding(
                            self.out,
                            Finding::new(
                                props_main,
                                "recovered-state-mismatch",
                                label_class(label),
                                format!("crash point {} ({}; depth {}, reuse_log_files={}): recovered contents match neither the acknowledged state nor that plus whole in-flight batches ({} candidates); vs acknowledged state: {}", point, label, depth, knobs.reuse_log_files, cands.len(), diff),
                                Some(point),
                            ),
                        );
                        ok = false;
                    } else {
                        observed = Some(got.clone());
                        // gets agree with the scan
                        for k in &self.plan.keys {
                            match call("get", || get(&db, None, k)) {
                                Called::Ok(Ok(v)) => {
                                    if v != got.get(k).cloned() {
                                        push_finding(self.out, Finding::new(props_main, "recovered-get-mismatch", label_class(label), format!("crash point {} ({}): get({}) = {} but the scan shows {}", point, label, show_key(k), show_opt(&v), show_opt(&got.get(k).cloned())), Some(point)));
                                        ok = false;
                                        break;
                                    }
                                }
                                Called::Ok(Err(e)) => {
                                    push_finding(self.out, Finding::new(props_main, "recovered-read-error", &err_signature(&e), format!("crash point {} ({}): get failed with {:?}", point, label, e), Some(point)));
                                    ok = false;
                                    break;
                                }
                                Called::Panicked { .. } => {
                                    ok = false;
                                    break;
                                }
                            }
                        }
                    }
                }
                Called::Ok(Err(e)) => {
                    push_finding(self.out, Finding::new(props_main, "recovered-read-error", "scan", format!("crash point {} ({}): scan failed with {:?}", point, label, e), Some(point)));
                    ok = false;
                }
                Called::Panicked { .. } => ok = false,
            }
        }
        // the recovered database is fully usable: further writes, clean close, reopen
        let mut post: Vec<WriteRec> = vec![];
        let mut model = observed.clone().unwrap_or_default();
        let obs_len = fs.mut_log_len();
        if ok {
            let n_more = if self.torn { rng.range(3, 12) } else { rng.range(2, 6) } as usize;
            for j in 0..n_more {
                let key = format!("post-{}-{}", depth, j).into_bytes();
                let len = if self.torn {
                    // some stay within the torn tail's 32 KiB block, some cross it
                    *rng.pick(&[10usize, 200, 3000, 20000, 40000])
                } else {
                    *rng.pick(&[10usize, 100, 2000])
                };
                let mut val = format!("p{}.{}.{}#", point, depth, j).into_bytes();
                while val.len() < len {
                    val.push(b'a' + (val.len() % 26) as u8);
                }
                let inv_len = fs.mut_log_len();
                let r = call("put", || db.put(wopts(), key.clone(), val.clone()));
                let ret_len = fs.mut_log_len();
                match r {
                    Called::Ok(Ok(())) => {
                        model.insert(key.clone(), val.clone());
                        post.push(WriteRec { inv_len, ret_len, items: vec![(key, Some(val))] });
                    }
                    Called::Ok(Err(e)) => {
                        push_finding(self.out, Finding::new(props_main, "post-recovery-write-failed", &err_signature(&e), format!("crash point {} ({}): write after recovery failed with {:?}", point, label, e), Some(point)));
                        ok = false;
                        break;
                    }
                    Called::Panicked { .. } => {
                        ok = false;
                        break;
                    }
                }
            }
        }
        let _ = call("drop", move || drop(db));
        if rt::is_poisoned() {
            return;
        }
        if ok {
            let mut k2 = knobs.clone();
            if rng.chance(1, 2) {
                k2.reuse_log_files = !k2.reuse_log_files;
            }
            let opts = options(fs.clone(), &k2, false);
            match call("open", || DB::open(opts)) {
                Called::Ok(Ok(db2)) => {
                    match call("scan", || scan_forward(&db2, None)) {
                        Called::Ok(Ok(d)) => {
                            if let Some(diff) = diff_kv(&d, &model) {
                                push_finding(
                                    self.out,
                                    Finding::new(props_main, "post-recovery-state-lost", label_class(label), format!("crash point {} ({}; reuse_log_files {} then {}): after recovery, {} acknowledged writes, a clean close and a reopen: {}", point, label, knobs.reuse_log_files, k2.reuse_log_files, post.len(), diff), Some(point)),
                                );
                            }
                        }
                        Called::Ok(Err(e)) => push_finding(self.out, Finding::new(props_main, "recovered-read-error", "scan-after-reopen", format!("crash point {} ({}): scan after the second open failed with {:?}", point, label, e), Some(point))),
                        Called::Panicked { .. } => {}
                    }
                    let _ = call("drop", move || drop(db2));
                }
                Called::Ok(Err(e)) => push_finding(self.out, Finding::new(props_main, "post-recovery-reopen-failed", &err_signature(&e), format!("crash point {} ({}): the clean reopen after recovery failed with {:?}", point, label, e), Some(point))),
                Called::Panicked { .. } => {}
            }
        }
        if rt::is_poisoned() {
            return;
        }
        // nested: crash the recovery run itself
        let nest = if self.torn { depth < 1 && rng.chance(1, 4) } else { depth < 2 && rng.chance(1, 6) };
        if nest && observed.is_some() {
            let log = fs.mut_log();
            if !log.is_empty() {
                // torn mode: the second crash tears a write of the recovery run itself (its own
                // manifest / WAL / table writes), otherwise it falls between two operations
                let torn_writes: Vec<usize> = if self.torn { log.iter().enumerate().filter(|(_, o)| matches!(&o.op, MutOp::Write { data, .. } if data.len() >= 2)).map(|(i, _)| i).collect() } else { vec![] };
                let (m, cut) = if !torn_writes.is_empty() {
                    let m = *rng.pick(&torn_writes);
                    let len = match &log[m].op {
                        MutOp::Write { data, .. } => data.len(),
                        _ => 2,
                    };
                    (m, Some(1 + rng.usize_below(len - 1)))
                } else {
                    (rng.usize_below(log.len() + 1), None)
                };
                let mut st = state.clone();
                for op in &log[..m] {
                    st.apply(&op.op, None);
                }
                if let Some(c) = cut {
                    st.apply(&log[m].op, Some(c));
                }
                let mut acked = expect.acked.clone();
                let mut optional: Vec<Items> = vec![];
                if m >= obs_len {
                    // the first recovery already showed which in-flight batches took effect
                    acked = observed.clone().unwrap();
                } else {
                    optional = expect.optional.clone();
                }
                for w in &post {
                    if w.ret_len <= m {
                        apply_items(&mut acked, &w.items);
                    } else if w.inv_len < m || (cut.is_some() && w.inv_len <= m) {
                        optional.push(w.items.clone());
                    }
                }
                with_out(self.out, |o| o.stats.probe("crash_inside_recovery"));
                let e2 = Expect { acked, optional };
                let label2 = match cut {
                    Some(c) => format!("nested torn {} bytes of {}", c, describe(log.get(m))),
                    None => format!("nested after {}", describe(log.get(m.wrapping_sub(1)))),
                };
                self.check_image(&st, &e2, &label2, point, depth + 1, rng);
            }
        }
        let _ = self.run_seed;
    }
}

fn label_class(label: &str) -> &str {
    // "after <kind> <path...>" -> the kind only, for signatures
    let mut it = label.split_whitespace();
    let first = it.next().unwrap_or("");
    if first == "nested" {
        return "nested";
    }
    if first == "torn" {
        return "torn-write";
    }
    first
}

pub fn body(case: &Case, out: &Shared) {
    let plan = &case.plan;
    let torn = case.params.get("torn").copied().unwrap_or(0) != 0;
    let only_point: Option<usize> = case.params.get("crash_at").map(|v| *v as usize);
    let only_cut: Option<usize> = case.params.get("cut").map(|v| *v as usize);
    let max_points = case.params.get("max_points").copied().unwrap_or(64) as usize;
    let fs = Arc::new(SimFs::new());
    let nkeys = plan.keys.len();

    // ---- base run (single writer) ----
    let mut recs: Vec<WriteRec> = vec![];
    let mut model = Kv::new();
    let mut db: Option<DB> = None;
    let mut healthy = true;
    let open = |k: &Knobs| -> Option<DB> {
        let opts = options(fs.clone(), k, true);
        match call("open", || DB::open(opts)) {
            Called::Ok(Ok(db)) => Some(db),
            Called::Ok(Err(e)) => {
                push_finding(out, Finding::new(&["C01"], "open-failed", &err_signature(&e), format!("base run: DB::open returned {:?}", e), None));
                None
            }
            Called::Panicked { .. } => None,
        }
    };
    db = open(&plan.opens[0]).or(db);
    if db.is_none() {
        healthy = false;
    }
    for (idx, op) in plan.ops.iter().enumerate() {
        if !healthy || rt::is_poisoned() {
            break;
        }
        let d = db.as_ref().unwrap();
        with_out(out, |o| o.stats.ops += 1);
        let mut items: Items = vec![];
        match op {
            Op::Put { k, v } => items.push((plan.keys[*k % nkeys].clone(), Some(v.bytes()))),
            Op::Delete { k } => items.push((plan.keys[*k % nkeys].clone(), None)),
            Op::Batch { items: its } => {
                for (k, v) in its {
                    items.push((plan.keys[*k % nkeys].clone(), v.as_ref().map(|v| v.bytes())));
                }
            }
            _ => {}
        }
        if !items.is_empty() {
            let mut b = Batch::new();
            for (k, v) in &items {
                match v {
                    Some(v) => {
                        b.add_put(k.clone(), v.clone());
                    }
                    None => {
                        b.add_delete(k.clone());
                    }
                }
            }
            let inv_len = fs.mut_log_len();
            let r = call("apply", || d.apply(wopts(), b));
            let ret_len = fs.mut_log_len();
            with_out(out, |o| o.stats.writes += 1);
            match r {
                Called::Ok(Ok(())) => {
                    apply_items(&mut model, &items);
                    recs.push(WriteRec { inv_len, ret_len, items });
                }
                Called::Ok(Err(e)) => {
                    push_finding(out, Finding::new(&["C01"], "op-error", &err_signature(&e), format!("base run op {} returned {:?}", idx, e), Some(idx)));
                    healthy = false;
                }
                Called::Panicked { .. } => healthy = false,
            }
            continue;
        }
        match op {
            Op::Get { k } => {
                let key = &plan.keys[*k % nkeys];
                with_out(out, |o| o.stats.gets += 1);
                match call("get", || get(d, None, key)) {
                    Called::Ok(Ok(v)) => {
                        if v != model.get(key).cloned() {
                            push_finding(out, Finding::new(&["C01"], "get-mismatch", "", format!("base run: get({}) = {} but model has {}", show_key(key), show_opt(&v), show_opt(&model.get(key).cloned())), Some(idx)));
                        }
                    }
                    Called::Ok(Err(e)) => {
                        push_finding(out, Finding::new(&["C01"], "read-error", &err_signature(&e), format!("base run: get failed with {:?}", e), Some(idx)));
                        healthy = false;
                    }
                    Called::Panicked { .. } => healthy = false,
                }
            }
            Op::Flush => {
                with_out(out, |o| o.stats.flushes += 1);
                if let Called::Panicked { .. } = call("flush", || d.verif_flush()) {
                    healthy = false;
                }
            }
            Op::Quiesce => {
                if let Called::Panicked { .. } = call("quiesce", || d.verif_wait_quiescent()) {
                    healthy = false;
                }
            }
            Op::CompactRange { start, end } => {
                with_out(out, |o| o.stats.compact_ranges += 1);
                let (s, e) = (start.clone(), end.clone());
                if let Called::Panicked { .. } = call("compact_range", || d.compact_range(s.as_deref()..e.as_deref())) {
                    healthy = false;
                }
            }
            Op::Reopen { idx: oi } => {
                with_out(out, |o| o.stats.reopens += 1);
                let old = db.take().unwrap();
                if let Called::Panicked { .. } = call("drop", move || drop(old)) {
                    healthy = false;
                    continue;
                }
                db = open(&plan.opens[*oi % plan.opens.len()]);
                if db.is_none() {
                    healthy = false;
                }
            }
            _ => {}
        }
    }
    // optional concurrent phase: 2-3 writers on disjoint key sets (group commits: several batches
    // in flight at a crash point, possibly merged into one WAL record)
    if healthy && !plan.clients.is_empty() && db.is_some() && !rt::is_poisoned() {
        let shared = Arc::new(db.take().unwrap());
        let plan_arc = Arc::new(plan.clone());
        let mut hs = vec![];
        for c in 0..plan.clients.len() {
            let (d2, p2, fs2, o2) = (Arc::clone(&shared), Arc::clone(&plan_arc), Arc::clone(&fs), Arc::clone(out));
            let h = rt::thread::Builder::new()
                .name(format!("writer-{}", c))
                .spawn(move || {
                    let nk = p2.keys.len();
                    let mut mine: Vec<WriteRec> = vec![];
                    for op in p2.clients[c].iter() {
                        if rt::is_poisoned() {
                            break;
                        }
                        rt::sched_point(rt::YieldKind::Client);
                        let mut items: Items = vec![];
                        match op {
                            Op::Put { k, v } => items.push((p2.keys[*k % nk].clone(), Some(v.bytes()))),
                            Op::Delete { k } => items.push((p2.keys[*k % nk].clone(), None)),
                            Op::Batch { items: its } => {
                                for (k, v) in its {
                                    items.push((p2.keys[*k % nk].clone(), v.as_ref().map(|v| v.bytes())));
                                }
                            }
                            _ => continue,
                        }
                        let mut b = Batch::new();
                        for (k, v) in &items {
                            match v {
                                Some(v) => {
                                    b.add_put(k.clone(), v.clone());
                                }
                                None => {
                                    b.add_delete(k.clone());
                                }
                            }
                        }
                        let inv_len = fs2.mut_log_len();
                        let r = call("apply", || d2.apply(wopts(), b));
                        let ret_len = fs2.mut_log_len();
                        with_out(&o2, |o| {
                            o.stats.writes += 1;
                            o.stats.ops += 1;
                        });
                        match r {
                            Called::Ok(Ok(())) => mine.push(WriteRec { inv_len, ret_len, items }),
                            _ => break,
                        }
                    }
                    drop(d2);
                    mine
                })
                .expect("spawn writer");
            hs.push(h);
        }
        for h in hs {
            match h.join() {
                Ok(w) => recs.extend(w),
                Err(_) => healthy = false,
            }
        }
        with_out(out, |o| o.stats.probe("concurrent_writers_in_base_run"));
        match Arc::try_unwrap(shared) {
            Ok(d) => db = Some(d),
            Err(d) => {
                std::mem::forget(d);
                healthy = false;
            }
        }
        if rt::is_poisoned() {
            healthy = false;
        }
    }
    // half of the base runs are closed cleanly (close is part of the log), half are left open and
    // simply "killed" at the end
    let clean_close = case.params.get("clean_close").copied().unwrap_or(1) != 0;
    if let Some(d) = db.take() {
        if clean_close || !healthy {
            let _ = call("drop", move || drop(d));
        } else {
            // keep the instance alive until the crash points have been taken; its background
            // thread is parked on the task channel and no longer writes
            let _ = call("quiesce", || d.verif_wait_quiescent());
            db = Some(d);
        }
    }
    let log: Vec<LoggedOp> = fs.mut_log();
    crate::hist::fold_fs_stats(&fs, out);
    if let Some(d) = db.take() {
        let _ = call("drop", move || drop(d));
    }
    if !healthy || rt::is_poisoned() {
        return;
    }

    // ---- crash points ----
    let mut rng = Rng::new(mix2(case.run_seed, 0xC2A5)).fork("crash");
    // inode -> path at creation, for classifying writes
    let mut inode_paths: BTreeMap<u64, std::path::PathBuf> = BTreeMap::new();
    for op in &log {
        if let MutOp::Create { path, inode } = &op.op {
            inode_paths.insert(*inode, path.clone());
        }
    }
    let mut points: Vec<usize> = if torn {
        log.iter().enumerate().filter(|(_, o)| matches!(&o.op, MutOp::Write { data, .. } if data.len() >= 2)).map(|(i, _)| i).collect()
    } else {
        (0..=log.len()).collect()
    };
    let total_points = points.len();
    if let Some(p) = only_point {
        points = vec![p];
    } else if points.len() > max_points {
        // keep the points next to the rare operation kinds, sample the rest
        let mut keep: Vec<usize> = vec![];
        let mut rest: Vec<usize> = vec![];
        for &p in &points {
            let interesting = if torn {
                let c = inode_paths.get(match &log[p].op {
                    MutOp::Write { inode, .. } => inode,
                    _ => unreachable!(),
                });
                !matches!(c.map(|p| classify(p)), Some(FileClass::Table))
            } else {
                let prev = p.checked_sub(1).and_then(|i| log.get(i));
                let next = log.get(p);
                let rare = |o: Option<&LoggedOp>| matches!(o.map(|o| &o.op), Some(MutOp::Rename { .. }) | Some(MutOp::Remove { .. }) | Some(MutOp::Create { .. }) | Some(MutOp::Truncate { .. }));
                rare(prev) || rare(next)
            };
            if interesting {
                keep.push(p);
            } else {
                rest.push(p);
            }
        }
        rng.shuffle(&mut keep);
        keep.truncate(max_points * 2 / 3);
        rng.shuffle(&mut rest);
        rest.truncate(max_points - keep.len());
        keep.extend(rest);
        keep.sort_unstable();
        points = keep;
    }
    with_out(out, |o| {
        o.stats.bump("crash_points_total_in_base_runs", total_points as u64);
        o.stats.bump("crash_points_checked", 0);
        if points.len() == total_points {
            o.stats.bump("base_runs_enumerated_completely", 1);
        }
    });
    let rec = Recovery { out, plan, torn, run_seed: case.run_seed };
    let mut st = FsState::default();
    let mut applied = 0usize;
    let mut classes: std::collections::BTreeSet<String> = Default::default();
    for (pi, &p) in points.iter().enumerate() {
        if rt::is_poisoned() || out.lock().unwrap().findings.len() >= 8 {
            break;
        }
        if rt::spawned_count() > 1500 {
            // hard guard for the stack mappings of finished tasks (see checks.rs, max_points)
            let left = (points.len() - pi) as u64;
            with_out(out, |o| o.stats.bump("crash_points_skipped_task_budget", left));
            break;
        }
        while applied < p {
            st.apply(&log[applied].op, None);
            applied += 1;
        }
        let mut acked = Kv::new();
        let mut optional: Vec<Items> = vec![];
        for w in &recs {
            if w.ret_len <= p {
                apply_items(&mut acked, &w.items);
            } else if w.inv_len < p {
                // some of its filesystem operations may have happened
                optional.push(w.items.clone());
            }
        }
        let expect = Expect { acked, optional };
        let mut prng = Rng::new(mix2(case.run_seed, p as u64)).fork("point");
        if torn {
            let MutOp::Write { data, .. } = &log[p].op else { continue };
            let len = data.len();
            let mut cuts: Vec<usize> = vec![1, len / 2, len - 1, 1 + prng.usize_below(len - 1), 1 + prng.usize_below(len - 1)];
            cuts.retain(|c| *c >= 1 && *c < len);
            cuts.sort_unstable();
            cuts.dedup();
            if let Some(c) = only_cut {
                cuts = vec![c];
            }
            let class = point_class(&st, &inode_paths, Some(&log[p]));
            for c in cuts {
                let mut img = st.clone();
                img.apply(&log[p].op, Some(c));
                // the torn write itself belongs to an in-flight operation: it is covered by
                // `optional` (its writer had been invoked and not returned)
                classes.insert(format!("torn:{}", class));
                with_out(out, |o| {
                    o.stats.bump("crash_points_checked", 1);
                    o.stats.fault_fired += 1;
                });
                rec.check_image(&img, &expect, &format!("torn {} of {} bytes of {}", c, len, describe(Some(&log[p]))), p, 0, &mut prng);
            }
        } else {
            let prev = p.checked_sub(1).and_then(|i| log.get(i));
            classes.insert(point_class(&st, &inode_paths, prev));
            with_out(out, |o| {
                o.stats.bump("crash_points_checked", 1);
                o.stats.fault_fired += 1;
            });
            let before = out.lock().unwrap().findings.iter().filter(|f| f.concerns("C02")).count();
            rec.check_image(&st, &expect, &format!("after {}", describe(prev)), p, 0, &mut prng);
            let lost = out.lock().unwrap().findings.iter().filter(|f| f.concerns("C02")).skip(before).any(|f| f.class == "recovered-state-mismatch" || f.class == "recovery-open-failed");
            if lost {
                // C11 "nothing live deleted ... that crash recovery still needs": counterfactual
                // image = the same prefix with the removals of WAL / table / manifest files
                // skipped. If recovery of THAT image shows the acknowledged state, a file was
                // removed while crash recovery still needed it.
                let mut alt = FsState::default();
                let mut skipped: Vec<String> = vec![];
                for op in &log[..p] {
                    if let MutOp::Remove { path } = &op.op {
                        if matches!(classify(path), FileClass::Wal | FileClass::Table | FileClass::Manifest) {
                            skipped.push(path.display().to_string());
                            continue;
                        }
                    }
                    alt.apply(&op.op, None);
                }
                if !skipped.is_empty() {
                    let tmp: Shared = Arc::new(std::sync::Mutex::new(RunOutput::default()));
                    let rec2 = Recovery { out: &tmp, plan, torn, run_seed: case.run_seed };
                    let mut prng2 = Rng::new(mix2(case.run_seed, p as u64)).fork("point");
                    rec2.check_image(&alt, &expect, "counterfactual", p, 2, &mut prng2);
                    let alt_ok = !tmp.lock().unwrap().findings.iter().any(|f| f.concerns("C02"));
                    if alt_ok {
                        push_finding(
                            out,
                            Finding::new(
                                &["C11"],
                                "needed-file-removed",
                                "crash-recovery",
                                format!("crash point {} ({}): recovery loses acknowledged data, but the same crash image with the removed files {:?} still present recovers correctly: a file was removed while crash recovery still needed it", p, describe(prev), skipped.iter().rev().take(4).collect::<Vec<_>>()),
                                Some(p),
                            ),
                        );
                    }
                }
            }
        }
    }
    with_out(out, |o| {
        for c in classes {
            o.stats.probe(&format!("crash@{}", c));
        }
        o.completed = true;
    });
}
