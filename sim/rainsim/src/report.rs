//! Evidence files, known findings, replay files.

use crate::exec::{Case, CaseResult};
use crate::world::Finding;
use serde::{Deserialize, Serialize};
use serde_json::{json, Value};
use std::collections::{BTreeMap, BTreeSet};
use std::path::{Path, PathBuf};

pub fn verif_root() -> PathBuf {
    if let Ok(p) = std::env::var("VERIF_ROOT") {
        return PathBuf::from(p);
    }
    // the binary lives in <root>/sim/target/release/rainsim
    let exe = std::env::current_exe().ok();
    if let Some(exe) = exe {
        let mut p = exe.as_path();
        for _ in 0..4 {
            if let Some(pp) = p.parent() {
                p = pp;
            }
        }
        if p.join("properties.jsonl").exists() {
            return p.to_path_buf();
        }
    }
    PathBuf::from("/verif")
}

#[derive(Serialize, Deserialize, Clone, Debug)]
pub struct KnownFinding {
    pub property: String,
    /// Substring that must occur in the violation signature.
    pub signature: String,
    /// What fails, in words (printed on the KNOWN-FINDING line).
    pub what: String,
}

#[derive(Serialize, Deserialize, Clone, Debug, Default)]
pub struct KnownFindings {
    #[serde(default)]
    pub findings: Vec<KnownFinding>,
    /// "fixed: property=<id> <commit> <what failed>" entries; they suppress nothing.
    #[serde(default)]
    pub fixed: Vec<String>,
}

impl KnownFindings {
    pub fn load() -> KnownFindings {
        let p = verif_root().join("known_findings.json");
        match std::fs::read_to_string(&p) {
            Ok(s) => serde_json::from_str(&s).unwrap_or_else(|e| {
                eprintln!("HARNESS ERROR: cannot parse {}: {}", p.display(), e);
                std::process::exit(2);
            }),
            Err(_) => KnownFindings::default(),
        }
    }

    pub fn matches(&self, prop: &str, f: &Finding) -> Option<&KnownFinding> {
        self.findings.iter().find(|k| k.property == prop && f.signature.contains(&k.signature))
    }
}

/// A replay file: the case (with its recorded schedule) plus what it is expected to reproduce.
#[derive(Serialize, Deserialize, Clone, Debug)]
pub struct ReplayFile {
    pub property: String,
    pub signature: String,
    pub class: String,
    pub detail: String,
    pub case: Case,
    #[serde(default)]
    pub trace: Vec<String>,
    #[serde(default)]
    pub digest: u64,
    #[serde(default)]
    pub shrink: Option<String>,
}

pub fn write_replay(prop: &str, f: &Finding, case: &Case, res: &CaseResult, shrink_note: Option<String>) -> PathBuf {
    let dir = verif_root().join("replays");
    let _ = std::fs::create_dir_all(&dir);
    let path = dir.join(format!("{}-{:016x}.json", prop, case.run_seed));
    let rf = ReplayFile { property: prop.to_string(), signature: f.signature.clone(), class: f.class.clone(), detail: f.detail.clone(), case: case.clone(), trace: res.trace.clone(), digest: res.digest(), shrink: shrink_note };
    std::fs::write(&path, serde_json::to_string_pretty(&rf).unwrap()).expect("write replay file");
    path
}

pub fn read_replay(path: &Path) -> ReplayFile {
    let s = std::fs::read_to_string(path).unwrap_or_else(|e| {
        eprintln!("HARNESS ERROR: cannot read replay file {}: {}", path.display(), e);
        std::process::exit(2);
    });
    serde_json::from_str(&s).unwrap_or_else(|e| {
        eprintln!("HARNESS ERROR: cannot parse replay file {}: {}", path.display(), e);
        std::process::exit(2);
    })
}

/// Accumulated over a batch, merged across worker threads.
#[derive(Default, Clone, Debug)]
pub struct Acc {
    pub runs: u64,
    pub evaluations: u64,
    pub completed: u64,
    pub aborted: u64,
    pub nontrivial: u64,
    pub signatures: BTreeSet<u64>,
    /// digests of the recorded schedules / client-visible histories (distinct interleavings)
    pub schedules: BTreeSet<u64>,
    pub histories: BTreeSet<u64>,
    pub sums: BTreeMap<String, u64>,
    pub probes: BTreeMap<String, u64>,
    pub strategies: BTreeMap<String, u64>,
    pub other_property_findings: BTreeMap<String, u64>,
    pub known_hits: BTreeMap<String, u64>,
    pub samples: Vec<Value>,
    pub seeds: Vec<u64>,
    pub fault_sites: BTreeMap<String, u64>,
    pub exhaustive_units: u64,
}

impl Acc {
    pub fn add(&mut self, name: &str, n: u64) {
        *self.sums.entry(name.to_string()).or_insert(0) += n;
    }

    pub fn merge(&mut self, o: Acc) {
        self.runs += o.runs;
        self.evaluations += o.evaluations;
        self.completed += o.completed;
        self.aborted += o.aborted;
        self.nontrivial += o.nontrivial;
        self.signatures.extend(o.signatures);
        self.schedules.extend(o.schedules);
        self.histories.extend(o.histories);
        for (k, v) in o.sums {
            *self.sums.entry(k).or_insert(0) += v;
        }
        for (k, v) in o.probes {
            *self.probes.entry(k).or_insert(0) += v;
        }
        for (k, v) in o.strategies {
            *self.strategies.entry(k).or_insert(0) += v;
        }
        for (k, v) in o.other_property_findings {
            *self.other_property_findings.entry(k).or_insert(0) += v;
        }
        for (k, v) in o.known_hits {
            *self.known_hits.entry(k).or_insert(0) += v;
        }
        for (k, v) in o.fault_sites {
            *self.fault_sites.entry(k).or_insert(0) += v;
        }
        for s in o.samples {
            if self.samples.len() < 4 {
                self.samples.push(s);
            }
        }
        for s in o.seeds {
            if self.seeds.len() < 8 {
                self.seeds.push(s);
            }
        }
        self.exhaustive_units += o.exhaustive_units;
    }

    pub fn absorb_stats(&mut self, res: &CaseResult) {
        let s = &res.stats;
        for (n, v) in [
            ("ops", s.ops),
            ("gets", s.gets),
            ("scans", s.scans),
            ("writes", s.writes),
            ("flushes", s.flushes),
            ("compact_ranges", s.compact_ranges),
            ("reopens", s.reopens),
            ("snapshot_reads", s.snap_reads),
            ("iterator_steps", s.iter_steps),
            ("shape_checks", s.shape_checks),
            ("dir_checks", s.dir_checks),
            ("bracket_checks", s.bracket_checks),
            ("skipped_ops", s.skipped_ops),
            ("tables_created", s.tables_created),
            ("table_reads", s.table_reads),
            ("fs_calls", s.fs_calls),
            ("fs_mutating_ops", s.mut_ops),
            ("scheduler_steps", s.steps),
            ("context_switches", s.switches),
            ("choice_points", s.choice_points),
            ("freezes_fired", s.freezes),
            ("simulated_sleeps", s.sleeps),
            ("lazy_pending_files", s.lazy_pending_files),
            ("pin_unknown", s.pin_unknown),
            ("faults_fired", s.fault_fired),
            ("linearizability_checked_keys", s.lin_checked),
            ("linearizability_unchecked_keys", s.lin_unchecked),
        ] {
            if v > 0 {
                self.add(n, v);
            }
        }
        for (k, v) in &s.extra {
            self.add(k, *v);
        }
        for (k, v) in &s.probes {
            *self.probes.entry(k.clone()).or_insert(0) += *v;
        }
        if let Some(site) = &s.fault_site {
            *self.fault_sites.entry(site.clone()).or_insert(0) += 1;
        }
        let max_level = format!("runs_reaching_level_{}", s.max_level);
        self.add(&max_level, 1);
    }
}

pub struct EvidenceSpec<'a> {
    pub property: &'a str,
    pub tier: &'a str,
    pub seed: u64,
    pub level: &'a str,
    pub rule: &'a str,
    pub assumptions: Vec<String>,
    pub wall_s: f64,
    pub violations: u64,
    pub exhaustive: bool,
    pub expected_probes: &'a [&'a str],
    pub extra: Value,
}

pub const COMPONENTS_REAL: &str = "every line of /repo/src except fs/fs_disk.rs and fs/fs_mem.rs (C17 runs fs_disk.rs for real); nerdondon-hopscotch skiplist, arc-swap, snap, crc as shipped";
pub const COMPONENTS_STUB: &str = "OS threads -> shuttle tasks; parking_lot -> shim on shuttle primitives; disk -> SimFs; OS scheduler -> SimScheduler (Random/PCT/Freeze/Sticky/RoundRobin/Replay)";

pub fn write_evidence(spec: &EvidenceSpec, acc: &Acc) {
    let dir = verif_root().join("evidence");
    let _ = std::fs::create_dir_all(&dir);
    let runs_per_hour = if spec.wall_s > 0.0 { (acc.runs as f64 / spec.wall_s * 3600.0) as u64 } else { 0 };
    let evals_per_hour = if spec.wall_s > 0.0 { (acc.evaluations as f64 / spec.wall_s * 3600.0) as u64 } else { 0 };
    let zero_probes: Vec<&str> = spec.expected_probes.iter().copied().filter(|p| acc.probes.get(*p).copied().unwrap_or(0) == 0).collect();
    let mut samples = acc.samples.clone();
    if samples.is_empty() {
        samples.push(json!({"note": "no sample recorded"}));
    }
    let mut coverage = json!({
        "evaluations": acc.evaluations,
        "distinct_nontrivial": acc.signatures.len(),
        "rule": spec.rule,
        "samples": samples,
        "exhaustive": spec.exhaustive,
        "simulated_runs": acc.runs,
        "runs_completed": acc.completed,
        "runs_aborted_by_other_findings": acc.aborted,
        "nontrivial_runs": acc.nontrivial,
        "distinct_schedules": acc.schedules.len(),
        "distinct_client_histories": acc.histories.len(),
        "distinct_measure": "distinct_nontrivial = distinct coverage signatures (see rule); distinct_schedules = distinct digests of the complete recorded task-choice sequence; distinct_client_histories = distinct digests of the client-visible operation/result history",
        "runs_per_hour": runs_per_hour,
        "evaluations_per_hour": evals_per_hour,
        "seeds_sample": acc.seeds,
        "simulated_time": {
            "unit": "RainDB has no deadline/timeout/lease; logical time = scheduler steps and global event sequence; thread::sleep(1ms) is a yield",
            "scheduler_steps": acc.sums.get("scheduler_steps").copied().unwrap_or(0),
            "simulated_sleeps": acc.sums.get("simulated_sleeps").copied().unwrap_or(0),
        },
        "counters": acc.sums,
        "probes": acc.probes,
        "probes_stuck_at_zero": zero_probes,
        "scheduler_strategies": acc.strategies,
        "fault_sites_fired": acc.fault_sites,
        "findings_for_other_properties": acc.other_property_findings,
        "known_findings_hit": acc.known_hits,
        "components_real": COMPONENTS_REAL,
        "components_stubbed": COMPONENTS_STUB,
    });
    if let (Value::Object(c), Value::Object(e)) = (&mut coverage, &spec.extra) {
        for (k, v) in e {
            c.insert(k.clone(), v.clone());
        }
    }
    let ev = json!({
        "property_id": spec.property,
        "tier": spec.tier,
        "seed": spec.seed,
        "level": spec.level,
        "coverage": coverage,
        "assumptions": spec.assumptions,
        "wall_s": spec.wall_s,
        "violations": spec.violations,
    });
    let path = dir.join(format!("{}.json", spec.property));
    std::fs::write(&path, serde_json::to_string_pretty(&ev).unwrap()).expect("write evidence");
}
