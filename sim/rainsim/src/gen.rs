//! Plan generators (swarm style: sizes, workload mix, key shapes, value sizes and knobs are all
//! drawn per run; some alphabet entries get weight zero in a run).

use crate::plan::*;
use crate::rng::Rng;

#[derive(Clone, Copy, Debug, PartialEq, Eq)]
pub enum Profile {
    C01,
    C03,
    C04,
    C07,
    C10,
    C11,
    C09,
    /// Small write-mostly base runs for crash / fault / corruption enumeration.
    Base,
}

#[derive(Clone, Copy, Debug)]
pub struct Size {
    pub min_ops: usize,
    pub max_ops: usize,
    pub max_keys: usize,
    pub max_reopens: usize,
}

pub const QUICK: Size = Size { min_ops: 15, max_ops: 140, max_keys: 40, max_reopens: 3 };
pub const BASE_QUICK: Size = Size { min_ops: 4, max_ops: 60, max_keys: 16, max_reopens: 2 };
pub const BASE_THOROUGH: Size = Size { min_ops: 4, max_ops: 150, max_keys: 24, max_reopens: 3 };
pub const THOROUGH: Size = Size { min_ops: 15, max_ops: 320, max_keys: 64, max_reopens: 6 };

const N_KINDS: usize = 25;
const PUT: usize = 0;
const DELETE: usize = 1;
const BATCH: usize = 2;
const GET: usize = 3;
const GETMANY: usize = 4;
const SNAP: usize = 5;
const RELEASE: usize = 6;
const GETSNAP: usize = 7;
const SNAPDUMP: usize = 8;
const ITEROPEN: usize = 9;
const ITERSEEK: usize = 10;
const ITERFIRST: usize = 11;
const ITERLAST: usize = 12;
const ITERNEXT: usize = 13;
const ITERPREV: usize = 14;
const ITERDUMP: usize = 15;
const ITERCLOSE: usize = 16;
const COMPACT: usize = 17;
const FLUSH: usize = 18;
const QUIESCE: usize = 19;
const REOPEN: usize = 20;
const CHECKALL: usize = 21;
const BURST: usize = 22;
const DESCRIPTOR: usize = 23;
const DIRCHECK: usize = 24;

fn base_weights(p: Profile) -> [u32; N_KINDS] {
    let mut w = [0u32; N_KINDS];
    w[PUT] = 30;
    w[DELETE] = 8;
    w[BATCH] = 8;
    w[GET] = 18;
    w[GETMANY] = 1;
    w[SNAP] = 2;
    w[RELEASE] = 1;
    w[GETSNAP] = 3;
    w[SNAPDUMP] = 1;
    w[ITEROPEN] = 2;
    w[ITERSEEK] = 3;
    w[ITERFIRST] = 1;
    w[ITERLAST] = 1;
    w[ITERNEXT] = 4;
    w[ITERPREV] = 3;
    w[ITERDUMP] = 1;
    w[ITERCLOSE] = 1;
    w[COMPACT] = 2;
    w[FLUSH] = 3;
    w[QUIESCE] = 2;
    w[REOPEN] = 1;
    w[CHECKALL] = 3;
    w[BURST] = 3;
    match p {
        Profile::C01 => {
            w[GET] = 30;
            w[REOPEN] = 2;
            w[GETMANY] = 2;
        }
        Profile::C03 => {
            w[SNAP] = 6;
            w[GETSNAP] = 12;
            w[SNAPDUMP] = 6;
            w[ITEROPEN] = 5;
            w[ITERDUMP] = 6;
            w[FLUSH] = 6;
            w[COMPACT] = 4;
            w[REOPEN] = 0;
        }
        Profile::C04 => {
            w[ITEROPEN] = 6;
            w[ITERSEEK] = 16;
            w[ITERFIRST] = 4;
            w[ITERLAST] = 4;
            w[ITERNEXT] = 22;
            w[ITERPREV] = 20;
            w[ITERCLOSE] = 2;
            w[GET] = 5;
            w[FLUSH] = 5;
        }
        Profile::C07 => {
            w[COMPACT] = 7;
            w[FLUSH] = 9;
            w[QUIESCE] = 5;
            w[SNAP] = 4;
            w[DELETE] = 12;
            w[BURST] = 6;
        }
        Profile::C11 => {
            w[COMPACT] = 5;
            w[FLUSH] = 5;
            w[QUIESCE] = 3;
            w[REOPEN] = 3;
            w[CHECKALL] = 3;
            w[DIRCHECK] = 6;
            w[BURST] = 6;
            w[ITEROPEN] = 4;
            w[ITERCLOSE] = 5;
            w[ITERDUMP] = 3;
        }
        Profile::C10 => {
            w[COMPACT] = 5;
            w[FLUSH] = 7;
            w[QUIESCE] = 4;
            w[REOPEN] = 3;
            w[CHECKALL] = 6;
            w[BURST] = 6;
            w[ITEROPEN] = 3;
            w[ITERCLOSE] = 3;
        }
        Profile::C09 => {
            w[DESCRIPTOR] = 6;
            w[COMPACT] = 5;
            w[FLUSH] = 6;
            w[BURST] = 8;
        }
        Profile::Base => {
            for x in [GETSNAP, SNAPDUMP, ITEROPEN, ITERSEEK, ITERFIRST, ITERLAST, ITERNEXT, ITERPREV, ITERDUMP, ITERCLOSE, SNAP, RELEASE, CHECKALL, QUIESCE, GETMANY, DIRCHECK] {
                w[x] = 0;
            }
            w[GET] = 3;
            w[COMPACT] = 1;
            w[FLUSH] = 2;
        }
    }
    w
}

fn seek_target(rng: &mut Rng, keys: &[Vec<u8>]) -> Vec<u8> {
    let k = rng.pick(keys).clone();
    match rng.below(8) {
        0 => {
            let mut k = k;
            k.push(0);
            k
        }
        1 => {
            let mut k = k;
            k.pop();
            k
        }
        2 => {
            let mut k = k;
            if let Some(l) = k.last_mut() {
                *l = l.wrapping_add(1);
            }
            k
        }
        3 => (0..rng.range(0, 3)).map(|_| rng.below(256) as u8).collect(),
        4 => vec![],
        5 => vec![0xff; 3],
        _ => k,
    }
}

pub fn gen_hist(rng: &mut Rng, profile: Profile, size: Size) -> Plan {
    let mut krng = rng.fork("knobs");
    let mut prng = rng.fork("plan");
    let n_opens = 1 + prng.usize_below(size.max_reopens + 1);
    let mut opens: Vec<Knobs> = (0..n_opens).map(|_| Knobs::gen(&mut krng)).collect();
    // "versions" shape (a quarter of the runs): few keys rewritten and deleted many times under a
    // long-lived snapshot with small files, so that several versions of one user key survive
    // compactions, straddle file boundaries inside a level, and are later merged after the
    // snapshot is released
    let versions = profile != Profile::Base && prng.chance(1, 4);
    if versions {
        for k in opens.iter_mut() {
            k.max_file_size = *krng.pick(&[128u64, 256, 512, 1024, 4096]);
            k.max_block_size = *krng.pick(&[16usize, 64, 128, 1024]);
            k.max_memtable_size = *krng.pick(&[512usize, 1024, 2048, 4096]);
            k.level_base_bytes = *krng.pick(&[512u64, 2048, 8192]);
        }
    }
    let nkeys = if versions { prng.range(6, size.max_keys as u64) as usize } else { prng.range(2, size.max_keys as u64) as usize };
    let keys = gen_keys(&mut prng, nkeys);
    let mut vp = ValProfile::gen(&mut prng, &opens[0]);
    if versions {
        // tiny files (128 B - 4 KiB) and values from a few bytes up to a whole file: table files
        // hold one to eight entries, levels consist of many small files and an output file is
        // often cut right after a small entry such as a deletion marker
        vp.weights = [0, 4, 6, 6, 2, 0, 0];
        vp.block_ish = (opens[0].max_file_size / 4) as u32;
        vp.mem_ish = opens[0].max_file_size as u32;
    }
    let mut tags = TagGen::new();
    let mut w = base_weights(profile);
    // swarm: knock out some alphabet entries for this run
    for x in [DELETE, BATCH, COMPACT, FLUSH, QUIESCE, REOPEN, SNAP, ITEROPEN, BURST, GETMANY] {
        if prng.chance(1, 6) {
            w[x] = 0;
        }
    }
    if versions {
        w[SNAP] = w[SNAP].max(5);
        w[RELEASE] = w[RELEASE].max(3);
        w[DELETE] = w[DELETE].max(24);
        w[COMPACT] = w[COMPACT].max(8);
        w[FLUSH] = w[FLUSH].max(8);
        w[BURST] = w[BURST].max(8);
    }
    // hot-key bias: a small subset of keys receives most writes in some runs
    let hot: Vec<usize> = if prng.chance(1, 2) { (0..keys.len().min(1 + prng.usize_below(4))).map(|_| prng.usize_below(keys.len())).collect() } else { vec![] };
    let pick_key = |r: &mut Rng| -> usize {
        if !hot.is_empty() && r.chance(3, 5) {
            *r.pick(&hot)
        } else {
            r.usize_below(keys.len())
        }
    };
    let n_ops = prng.range(size.min_ops as u64, size.max_ops as u64) as usize;
    let mut ops: Vec<Op> = vec![];
    let mut snaps: Vec<usize> = vec![];
    let mut iters: Vec<usize> = vec![];
    let mut next_slot = 0usize;
    let mut reopens_left = n_opens - 1;
    // versions shape, warm start: a few rounds of plain writes over the whole key set (no reads, no
    // oracles in between) so that the random part of the plan starts from an LSM tree with
    // several populated levels instead of an empty one
    let mut n_ops = n_ops;
    if versions && prng.chance(2, 3) {
        let rounds = 1 + prng.usize_below(3);
        for _ in 0..rounds {
            let mut order: Vec<usize> = (0..keys.len()).collect();
            prng.shuffle(&mut order);
            for k in order {
                if prng.chance(1, 8) {
                    ops.push(Op::Delete { k });
                } else {
                    ops.push(Op::Put { k, v: tags.val(&mut prng, &vp) });
                }
            }
        }
        n_ops += ops.len();
    }
    let warm = ops.len();
    // versions shape: one snapshot is taken early and released in the middle of the plan, so that
    // what it pinned is merged later
    let pin_at = if versions { Some(prng.usize_below(warm + (n_ops - warm) / 4 + 1)) } else { None };
    let unpin_at = warm + (n_ops - warm) / 3 + prng.usize_below((n_ops - warm) / 3 + 1);
    let mut pinned: Option<usize> = None;
    let mut pin_done = false;
    if let Some(at) = pin_at {
        if at < warm {
            // inside the warm start
            ops.insert(at, Op::Snap { slot: next_slot });
            pinned = Some(next_slot);
            next_slot += 1;
            n_ops += 1;
        }
    }
    while ops.len() < n_ops {
        if let Some(at) = pin_at {
            if !pin_done && pinned.is_none() && ops.len() >= at {
                pinned = Some(next_slot);
                ops.push(Op::Snap { slot: next_slot });
                next_slot += 1;
                continue;
            }
            if let (Some(slot), true) = (pinned, ops.len() >= unpin_at) {
                ops.push(Op::Release { slot });
                pinned = None;
                pin_done = true;
                continue;
            }
        }
        let kind = prng.weighted(&w);
        match kind {
            PUT => ops.push(Op::Put { k: pick_key(&mut prng), v: tags.val(&mut prng, &vp) }),
            DELETE => ops.push(Op::Delete { k: pick_key(&mut prng) }),
            BATCH => {
                let cap = if prng.chance(1, 10) { 16 } else { 5 };
                let n = 1 + prng.usize_below(cap);
                let items = (0..n).map(|_| (pick_key(&mut prng), if prng.chance(1, 5) { None } else { Some(tags.val(&mut prng, &vp)) })).collect();
                ops.push(Op::Batch { items });
            }
            BURST => {
                // a burst of writes large enough to rotate the memtable a few times
                let n = 4 + prng.usize_below(24);
                for _ in 0..n {
                    if prng.chance(1, 6) {
                        ops.push(Op::Delete { k: pick_key(&mut prng) });
                    } else {
                        ops.push(Op::Put { k: pick_key(&mut prng), v: tags.val(&mut prng, &vp) });
                    }
                }
            }
            GET => ops.push(Op::Get { k: prng.usize_below(keys.len()) }),
            GETMANY => ops.push(Op::GetMany { k: prng.usize_below(keys.len()), n: 2 + prng.below(25) as u32 }),
            SNAP => {
                if snaps.len() < 4 {
                    snaps.push(next_slot);
                    ops.push(Op::Snap { slot: next_slot });
                    next_slot += 1;
                }
            }
            RELEASE => {
                if !snaps.is_empty() {
                    let i = prng.usize_below(snaps.len());
                    ops.push(Op::Release { slot: snaps.remove(i) });
                }
            }
            GETSNAP => {
                if !snaps.is_empty() {
                    ops.push(Op::GetSnap { slot: *prng.pick(&snaps), k: pick_key(&mut prng) });
                }
            }
            SNAPDUMP => {
                if !snaps.is_empty() {
                    ops.push(Op::SnapDump { slot: *prng.pick(&snaps) });
                }
            }
            ITEROPEN => {
                if iters.len() < 3 {
                    let snap = if !snaps.is_empty() && prng.chance(1, 3) { Some(*prng.pick(&snaps)) } else { None };
                    iters.push(next_slot);
                    ops.push(Op::IterOpen { slot: next_slot, snap });
                    if prng.chance(1, 2) {
                        ops.push(Op::IterFirst { slot: next_slot });
                    }
                    next_slot += 1;
                }
            }
            ITERSEEK | ITERFIRST | ITERLAST | ITERNEXT | ITERPREV | ITERDUMP => {
                if !iters.is_empty() {
                    let slot = *prng.pick(&iters);
                    ops.push(match kind {
                        ITERSEEK => Op::IterSeek { slot, key: seek_target(&mut prng, &keys) },
                        ITERFIRST => Op::IterFirst { slot },
                        ITERLAST => Op::IterLast { slot },
                        ITERNEXT => Op::IterNext { slot },
                        ITERPREV => Op::IterPrev { slot },
                        _ => Op::IterDump { slot },
                    });
                }
            }
            ITERCLOSE => {
                if !iters.is_empty() {
                    let i = prng.usize_below(iters.len());
                    ops.push(Op::IterClose { slot: iters.remove(i) });
                }
            }
            COMPACT => {
                let a = prng.pick(&keys).clone();
                let b = prng.pick(&keys).clone();
                let (lo, hi) = if a <= b { (a, b) } else { (b, a) };
                let narrow = versions && prng.chance(1, 2);
                let (start, end) = match if narrow { 10 } else { prng.below(12) } {
                    0..=3 => (None, None),
                    4 | 5 => (None, Some(hi)),
                    6 | 7 => (Some(lo), None),
                    8 | 9 => (Some(lo), Some(hi)),
                    10 => (Some(lo.clone()), Some(lo)),
                    _ => (Some(hi), Some(lo)),
                };
                ops.push(Op::CompactRange { start, end });
            }
            FLUSH => ops.push(Op::Flush),
            QUIESCE => ops.push(Op::Quiesce),
            REOPEN => {
                if reopens_left > 0 {
                    let idx = n_opens - reopens_left;
                    reopens_left -= 1;
                    // snapshots and iterators do not survive a reopen
                    snaps.clear();
                    iters.clear();
                    if pinned.take().is_some() {
                        pin_done = true;
                    }
                    ops.push(Op::Reopen { idx });
                }
            }
            CHECKALL => ops.push(Op::CheckAll),
            DIRCHECK => ops.push(Op::DirCheck),
            DESCRIPTOR => ops.push(Op::Descriptor { kind: prng.below(9) as u8 }),
            _ => {}
        }
    }
    if versions {
        // narrow manual compactions push few files at a time through levels made of many small
        // files (input expansion, boundary files), each followed by a full comparison
        for _ in 0..prng.range(1, 6) {
            let k = prng.pick(&keys).clone();
            ops.push(Op::CompactRange { start: Some(k.clone()), end: Some(k) });
            ops.push(Op::CheckAll);
        }
        ops.push(Op::CompactRange { start: None, end: None });
        ops.push(Op::CheckAll);
    }
    tame_sampling(Plan { keys, opens, ops, clients: vec![], tail: vec![] })
}

/// With kilobyte keys a tiny read-sampling period means hundreds of samples (each a lock round trip)
/// per iterator step, and a run of a hundred operations exceeds the step bound: keep the period at
/// least a few entries wide.
fn tame_sampling(mut plan: Plan) -> Plan {
    let longest = plan.keys.iter().map(|k| k.len()).max().unwrap_or(0);
    if longest > 256 {
        for k in plan.opens.iter_mut() {
            if k.read_bytes_period != 0 && k.read_bytes_period < 4 * longest {
                k.read_bytes_period = 4 * longest;
            }
        }
    }
    plan
}

/// Block-boundary prefix for fault / crash base runs: the first WAL record is sized so that it ends
/// r = 0..8 bytes before the first 32 KiB block boundary of the log (1-6 bytes left = a zero-padded
/// trailer, 7 = an empty first fragment), and the memtable is large enough for the following small
/// writes to be appended to the same WAL - so the padding write, the fragment headers around the
/// boundary and everything the reader does there lie on the fault and crash points of the run.
pub fn boundary_prefix(rng: &mut Rng, plan: &mut Plan) {
    for k in plan.opens.iter_mut() {
        k.max_memtable_size = 1 << 20;
    }
    if plan.keys.is_empty() {
        return;
    }
    // r = 0..8 bytes before the boundary, or (one time in three) 1..200 bytes beyond it, i.e. a record
    // fragmented into First + Last
    let r: i64 = if rng.chance(1, 3) { -(1 + rng.below(200) as i64) } else { rng.below(9) as i64 };
    // a key of its own, which no other operation of the plan touches (so the big record's value is
    // still the visible one when the image is inspected)
    let bk = b"~bnd".to_vec();
    if !plan.keys.contains(&bk) {
        plan.keys.push(bk);
    }
    let bki = plan.keys.len() - 1;
    let klen = plan.keys[bki].len() as u32;
    // physical header 7 + sequence 8 + count 1 + operation 1 + key length 1 + key + value length 3 + value
    let vlen = (32768 - 21 - klen as i64 - r) as u32;
    let mut pre = vec![Op::Put { k: bki, v: Val { tag: (900_300 + r) as u32, len: vlen } }];
    // half of the time the log is closed and reopened right at the boundary (reuse_log_files then
    // appends to a log that ends 0-8 bytes before it), and again after the small writes
    let reopen = rng.chance(1, 2);
    if reopen {
        pre.push(Op::Reopen { idx: 0 });
    }
    for j in 0..(1 + rng.below(3)) as u32 {
        pre.push(Op::Put { k: (j as usize) % bki.max(1), v: Val { tag: 900_600 + j, len: 12 + rng.below(40) as u32 } });
    }
    if reopen {
        pre.push(Op::Reopen { idx: 0 });
        pre.push(Op::Get { k: bki });
    }
    plan.ops.splice(0..0, pre);
}

/// One batch with more than 65 535 operations (a 16-bit count overflows) over a few keys, tiny
/// values, unique tags; later operations of the batch overwrite earlier ones, so a reader that sees
/// only a prefix of the batch sees different values. About 1.5 MiB of write-ahead log in one record.
/// Returns false (plan unchanged) for key universes with long keys.
pub fn giant_batch(rng: &mut Rng, plan: &mut Plan, reopen_after: bool) -> bool {
    if plan.keys.is_empty() || plan.keys.iter().any(|k| k.len() > 64) {
        return false;
    }
    let n = match rng.below(4) {
        0 => 65_536 + rng.below(4) as usize,
        1 => 131_072 + 1 + rng.below(500) as usize,
        _ => 65_537 + rng.below(3000) as usize,
    };
    let nk = plan.keys.len().min(12);
    let base = 1_000_000u32;
    let items: Vec<(usize, Option<Val>)> = (0..n)
        .map(|i| {
            let k = (i * 7 + i / nk) % nk;
            if i % 97 == 96 {
                (k, None)
            } else {
                (k, Some(Val { tag: base + i as u32, len: 0 }.with_min_len()))
            }
        })
        .collect();
    let at = rng.usize_below(plan.ops.len() + 1);
    plan.ops.insert(at, Op::Batch { items });
    if reopen_after {
        plan.ops.insert(at + 1, Op::Reopen { idx: 0 });
        plan.ops.insert(at + 2, Op::CheckAll);
    }
    true
}

#[derive(Clone, Copy, Debug, PartialEq, Eq)]
pub enum ConcProfile {
    C05,
    /// few, very large writes (60-140 KiB) from 3-5 clients so that group commits hit their size
    /// limits (128 KiB extra for a small leader, 1 MiB overall)
    C05Big,
    C06,
    C09,
    C03,
    C07,
    C11,
}

fn conc_knobs(rng: &mut Rng, profile: ConcProfile) -> Knobs {
    let mut k = Knobs::gen(rng);
    // continuous rotation / flush / compaction
    k.max_memtable_size = *rng.pick(&[512usize, 700, 1024, 2048, 4096]);
    k.max_file_size = *rng.pick(&[512u64, 1024, 4096, 16384]);
    if matches!(profile, ConcProfile::C03 | ConcProfile::C11) && rng.chance(2, 3) {
        k.table_cache_cap = 2;
    }
    if profile == ConcProfile::C05Big {
        k.max_memtable_size = *rng.pick(&[65536usize, 1 << 20, 4 << 20]);
        k.max_file_size = 1 << 20;
    }
    k
}

pub fn gen_conc(rng: &mut Rng, profile: ConcProfile, thorough: bool) -> (Plan, std::collections::BTreeMap<String, i64>) {
    let mut krng = rng.fork("knobs");
    let mut prng = rng.fork("plan");
    let knobs = conc_knobs(&mut krng, profile);
    let mut params = std::collections::BTreeMap::new();
    let nkeys = match profile {
        ConcProfile::C05 => prng.range(2, 8) as usize,
        ConcProfile::C06 => prng.range(4, 24) as usize,
        _ => prng.range(3, 16) as usize,
    };
    let keys = gen_keys(&mut prng, nkeys);
    let nkeys = keys.len();
    let vp = ValProfile { weights: [0, 4, 10, 3, if prng.chance(1, 5) { 1 } else { 0 }, 0, 0], block_ish: knobs.max_block_size as u32, mem_ish: knobs.max_memtable_size as u32 };
    let mut tags = TagGen::new();
    let n_clients = prng.range(2, if thorough { 5 } else { 4 }) as usize;
    let max_ops = if thorough { 60 } else { 36 };
    // setup
    let mut ops: Vec<Op> = vec![];
    let n_setup = prng.usize_below(12);
    for _ in 0..n_setup {
        if prng.chance(1, 8) {
            ops.push(Op::Flush);
        } else {
            ops.push(Op::Put { k: prng.usize_below(nkeys), v: tags.val(&mut prng, &vp) });
        }
    }
    let mut clients: Vec<Vec<Op>> = vec![];
    let mut tail: Vec<Op> = vec![];
    match profile {
        ConcProfile::C05Big => {
            ops.clear();
            let nc = prng.range(3, 5) as usize;
            for _ in 0..nc {
                let n = prng.range(2, 6) as usize;
                let mut c = vec![];
                for _ in 0..n {
                    match prng.weighted(&[50, 10, 30, 10]) {
                        0 => {
                            let mut v = tags.val(&mut prng, &vp);
                            v.len = *prng.pick(&[70_000u32, 100_000, 120_000, 135_000, 300_000]);
                            c.push(Op::Put { k: prng.usize_below(nkeys), v });
                        }
                        1 => c.push(Op::Put { k: prng.usize_below(nkeys), v: tags.val(&mut prng, &vp) }),
                        2 => c.push(Op::Get { k: prng.usize_below(nkeys) }),
                        _ => c.push(Op::Delete { k: prng.usize_below(nkeys) }),
                    }
                }
                clients.push(c);
            }
        }
        ConcProfile::C05 | ConcProfile::C09 => {
            for _ in 0..n_clients {
                let n = prng.range(5, max_ops) as usize;
                let reader_bias = prng.chance(1, 3);
                let mut c = vec![];
                let mut snaps: Vec<usize> = vec![];
                let mut slot = 0usize;
                while c.len() < n {
                    let w: [u32; 10] = if profile == ConcProfile::C05 {
                        if reader_bias {
                            [10, 3, 3, 60, 0, 0, 0, 0, 0, 0]
                        } else {
                            [40, 10, 10, 35, 0, 0, 0, 0, 1, 0]
                        }
                    } else {
                        [40, 8, 8, 15, 6, 5, 6, 4, 3, 6]
                    };
                    match prng.weighted(&w) {
                        0 => c.push(Op::Put { k: prng.usize_below(nkeys), v: tags.val(&mut prng, &vp) }),
                        1 => c.push(Op::Delete { k: prng.usize_below(nkeys) }),
                        2 => {
                            let m = 1 + prng.usize_below(4);
                            let items = (0..m).map(|_| (prng.usize_below(nkeys), if prng.chance(1, 5) { None } else { Some(tags.val(&mut prng, &vp)) })).collect();
                            c.push(Op::Batch { items });
                        }
                        3 => c.push(Op::Get { k: prng.usize_below(nkeys) }),
                        4 => {
                            let a = prng.pick(&keys).clone();
                            let b = prng.pick(&keys).clone();
                            let (lo, hi) = if a <= b { (a, b) } else { (b, a) };
                            let (start, end) = match prng.below(4) {
                                0 => (None, None),
                                1 => (None, Some(hi)),
                                2 => (Some(lo), None),
                                _ => (Some(lo), Some(hi)),
                            };
                            c.push(Op::CompactRange { start, end });
                        }
                        5 => c.push(Op::Descriptor { kind: prng.below(9) as u8 }),
                        6 => {
                            snaps.push(slot);
                            c.push(Op::Snap { slot });
                            slot += 1;
                        }
                        7 => {
                            if !snaps.is_empty() {
                                let i = prng.usize_below(snaps.len());
                                c.push(Op::Release { slot: snaps.remove(i) });
                            }
                        }
                        8 => c.push(Op::Flush),
                        _ => {
                            c.push(Op::IterOpen { slot, snap: None });
                            c.push(Op::IterDump { slot });
                            c.push(Op::IterClose { slot });
                            slot += 1;
                        }
                    }
                }
                clients.push(c);
            }
            if profile == ConcProfile::C09 {
                // sometimes close while background work is still in flight
                params.insert("quiesce_before_final".to_string(), prng.below(2) as i64);
            }
        }
        ConcProfile::C06 => {
            // writers own disjoint row groups; readers take consistent reads
            let n_writers = prng.range(1, 3) as usize;
            let n_readers = prng.range(1, 2) as usize;
            let mut next_key = 0usize;
            let mut groups: Vec<Vec<usize>> = vec![];
            for _ in 0..n_writers {
                let m = (prng.range(2, 8) as usize).min(nkeys.saturating_sub(next_key));
                if m < 2 {
                    break;
                }
                groups.push((next_key..next_key + m).collect());
                next_key += m;
            }
            // setup must not touch group keys with differently shaped writes
            ops.clear();
            for g in &groups {
                if prng.chance(1, 2) {
                    let v = tags.val(&mut prng, &vp);
                    ops.push(Op::Batch { items: g.iter().map(|k| (*k, Some(v.clone()))).collect() });
                }
            }
            if prng.chance(1, 3) {
                ops.push(Op::Flush);
            }
            for g in &groups {
                let n = prng.range(4, max_ops) as usize;
                let mut c = vec![];
                // in a third of the plans a writer also overwrites / deletes PART of its group (the
                // same-tag oracle then leaves that group alone; the oracle "the group shows a state
                // that exists between two writes of its only writer" covers it)
                let partial = prng.fork("partial").chance(1, 3);
                let mut qrng = prng.fork("partial-items");
                for _ in 0..n {
                    if partial && qrng.chance(1, 3) {
                        let v = tags.val(&mut qrng, &vp);
                        let del = qrng.chance(1, 4);
                        let items: Vec<(usize, Option<crate::plan::Val>)> = g.iter().filter(|_| qrng.chance(1, 2)).map(|k| (*k, if del { None } else { Some(v.clone()) })).collect();
                        if !items.is_empty() {
                            c.push(Op::Batch { items });
                            continue;
                        }
                    }
                    if prng.chance(1, 8) {
                        c.push(Op::Batch { items: g.iter().map(|k| (*k, None)).collect() });
                    } else {
                        let mut v = tags.val(&mut prng, &vp);
                        if prng.chance(1, 10) {
                            // padded so the batch alone exceeds the memtable budget
                            v.len = (knobs.max_memtable_size as u32 / g.len() as u32) + 64;
                        }
                        c.push(Op::Batch { items: g.iter().map(|k| (*k, Some(v.clone()))).collect() });
                    }
                }
                clients.push(c);
            }
            for _ in 0..n_readers {
                let n = prng.range(4, max_ops) as usize;
                let mut c = vec![];
                let mut slot = 0usize;
                while c.len() < n {
                    if prng.chance(1, 2) {
                        c.push(Op::Snap { slot });
                        if prng.chance(1, 2) {
                            c.push(Op::SnapDump { slot });
                        }
                        c.push(Op::Release { slot });
                    } else {
                        c.push(Op::IterOpen { slot, snap: None });
                        c.push(Op::IterDump { slot });
                        c.push(Op::IterClose { slot });
                    }
                    slot += 1;
                }
                clients.push(c);
            }
        }
        ConcProfile::C03 | ConcProfile::C11 => {
            let n_writers = prng.range(1, 2) as usize;
            let n_readers = prng.range(1, 2) as usize;
            for _ in 0..n_writers {
                let n = prng.range(10, max_ops * 2) as usize;
                let mut c = vec![];
                for _ in 0..n {
                    match prng.weighted(&[30, 8, 4, 2]) {
                        0 => c.push(Op::Put { k: prng.usize_below(nkeys), v: tags.val(&mut prng, &vp) }),
                        1 => c.push(Op::Delete { k: prng.usize_below(nkeys) }),
                        2 => c.push(Op::Flush),
                        _ => c.push(Op::CompactRange { start: None, end: None }),
                    }
                }
                clients.push(c);
            }
            for _ in 0..n_readers {
                let rounds = prng.range(1, 5) as usize;
                let mut c = vec![];
                let mut slot = 0usize;
                for _ in 0..rounds {
                    if prng.chance(1, 2) {
                        c.push(Op::Snap { slot });
                        for _ in 0..prng.range(1, 4) {
                            if prng.chance(1, 2) {
                                c.push(Op::SnapDump { slot });
                            } else {
                                c.push(Op::GetSnap { slot, k: prng.usize_below(nkeys) });
                            }
                        }
                        c.push(Op::Release { slot });
                    } else {
                        c.push(Op::IterOpen { slot, snap: None });
                        for _ in 0..prng.range(1, 4) {
                            c.push(Op::IterDump { slot });
                        }
                        c.push(Op::IterClose { slot });
                    }
                    slot += 1;
                }
                clients.push(c);
            }
        }
        ConcProfile::C07 => {
            for _ in 0..n_clients.min(3) {
                let n = prng.range(10, max_ops * 2) as usize;
                let mut c = vec![];
                for _ in 0..n {
                    match prng.weighted(&[30, 10, 5]) {
                        0 => c.push(Op::Put { k: prng.usize_below(nkeys), v: tags.val(&mut prng, &vp) }),
                        1 => c.push(Op::Delete { k: prng.usize_below(nkeys) }),
                        _ => {
                            let m = 1 + prng.usize_below(3);
                            let items = (0..m).map(|_| (prng.usize_below(nkeys), Some(tags.val(&mut prng, &vp)))).collect();
                            c.push(Op::Batch { items });
                        }
                    }
                }
                clients.push(c);
            }
            params.insert("quiesce_before_final".to_string(), 0);
            params.insert("tail_readers".to_string(), prng.range(1, 2) as i64);
            params.insert("tail_dumps".to_string(), prng.range(2, 8) as i64);
            for _ in 0..prng.range(1, 3) {
                match prng.below(3) {
                    0 => tail.push(Op::Flush),
                    1 => tail.push(Op::CompactRange { start: None, end: None }),
                    _ => {
                        let a = prng.pick(&keys).clone();
                        tail.push(Op::CompactRange { start: Some(a), end: None });
                    }
                }
            }
            tail.push(Op::Quiesce);
        }
    }
    (tame_sampling(Plan { keys, opens: vec![knobs], ops, clients, tail }), params)
}
