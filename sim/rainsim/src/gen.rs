//! Plan generators (swarm style: sizes, workload mix, key shapes, value sizes and knobs are all
//! drawn per run; some alphabet entries get weight zero in a run).

use crate::plan::*;
use crate::rng::Rng;

#[derive(Clone, Copy, Debug, PartialEq, Eq)]
pub enum Profile {
    C01,
    C03,
    C04,
    C07,
    C10,
    C11,
    C09,
    /// Small write-mostly base runs for crash / fault / corruption enumeration.
    Base,
}

#[derive(Clone, Copy, Debug)]
pub struct Size {
    pub min_ops: usize,
    pub max_ops: usize,
    pub max_keys: usize,
    pub max_reopens: usize,
}

pub const QUICK: Size = Size { min_ops: 15, max_ops: 140, max_keys: 40, max_reopens: 3 };
pub const THOROUGH: Size = Size { min_ops: 15, max_ops: 320, max_keys: 64, max_reopens: 6 };

const N_KINDS: usize = 25;
const PUT: usize = 0;
const DELETE: usize = 1;
const BATCH: usize = 2;
const GET: usize = 3;
const GETMANY: usize = 4;
const SNAP: usize = 5;
const RELEASE: usize = 6;
const GETSNAP: usize = 7;
const SNAPDUMP: usize = 8;
const ITEROPEN: usize = 9;
const ITERSEEK: usize = 10;
const ITERFIRST: usize = 11;
const ITERLAST: usize = 12;
const ITERNEXT: usize = 13;
const ITERPREV: usize = 14;
const ITERDUMP: usize = 15;
const ITERCLOSE: usize = 16;
const COMPACT: usize = 17;
const FLUSH: usize = 18;
const QUIESCE: usize = 19;
const REOPEN: usize = 20;
const CHECKALL: usize = 21;
const BURST: usize = 22;
const DESCRIPTOR: usize = 23;
const DIRCHECK: usize = 24;

fn base_weights(p: Profile) -> [u32; N_KINDS] {
    let mut w = [0u32; N_KINDS];
    w[PUT] = 30;
    w[DELETE] = 8;
    w[BATCH] = 8;
    w[GET] = 18;
    w[GETMANY] = 1;
    w[SNAP] = 2;
    w[RELEASE] = 1;
    w[GETSNAP] = 3;
    w[SNAPDUMP] = 1;
    w[ITEROPEN] = 2;
    w[ITERSEEK] = 3;
    w[ITERFIRST] = 1;
    w[ITERLAST] = 1;
    w[ITERNEXT] = 4;
    w[ITERPREV] = 3;
    w[ITERDUMP] = 1;
    w[ITERCLOSE] = 1;
    w[COMPACT] = 2;
    w[FLUSH] = 3;
    w[QUIESCE] = 2;
    w[REOPEN] = 1;
    w[CHECKALL] = 3;
    w[BURST] = 3;
    match p {
        Profile::C01 => {
            w[GET] = 30;
            w[REOPEN] = 2;
            w[GETMANY] = 2;
        }
        Profile::C03 => {
            w[SNAP] = 6;
            w[GETSNAP] = 12;
            w[SNAPDUMP] = 6;
            w[ITEROPEN] = 5;
            w[ITERDUMP] = 6;
            w[FLUSH] = 6;
            w[COMPACT] = 4;
            w[REOPEN] = 0;
        }
        Profile::C04 => {
            w[ITEROPEN] = 6;
            w[ITERSEEK] = 16;
            w[ITERFIRST] = 4;
            w[ITERLAST] = 4;
            w[ITERNEXT] = 22;
            w[ITERPREV] = 20;
            w[ITERCLOSE] = 2;
            w[GET] = 5;
            w[FLUSH] = 5;
        }
        Profile::C07 => {
            w[COMPACT] = 7;
            w[FLUSH] = 9;
            w[QUIESCE] = 5;
            w[SNAP] = 4;
            w[DELETE] = 12;
            w[BURST] = 6;
        }
        Profile::C11 => {
            w[COMPACT] = 5;
            w[FLUSH] = 5;
            w[QUIESCE] = 3;
            w[REOPEN] = 3;
            w[CHECKALL] = 3;
            w[DIRCHECK] = 6;
            w[BURST] = 6;
            w[ITEROPEN] = 4;
            w[ITERCLOSE] = 5;
            w[ITERDUMP] = 3;
        }
        Profile::C10 => {
            w[COMPACT] = 5;
            w[FLUSH] = 7;
            w[QUIESCE] = 4;
            w[REOPEN] = 3;
            w[CHECKALL] = 6;
            w[BURST] = 6;
            w[ITEROPEN] = 3;
            w[ITERCLOSE] = 3;
        }
        Profile::C09 => {
            w[DESCRIPTOR] = 6;
            w[COMPACT] = 5;
            w[FLUSH] = 6;
            w[BURST] = 8;
        }
        Profile::Base => {
            for x in [GETSNAP, SNAPDUMP, ITEROPEN, ITERSEEK, ITERFIRST, ITERLAST, ITERNEXT, ITERPREV, ITERDUMP, ITERCLOSE, SNAP, RELEASE, CHECKALL, QUIESCE, REOPEN, GETMANY] {
                w[x] = 0;
            }
            w[GET] = 3;
            w[COMPACT] = 1;
            w[FLUSH] = 2;
        }
    }
    w
}

fn seek_target(rng: &mut Rng, keys: &[Vec<u8>]) -> Vec<u8> {
    let k = rng.pick(keys).clone();
    match rng.below(8) {
        0 => {
            let mut k = k;
            k.push(0);
            k
        }
        1 => {
            let mut k = k;
            k.pop();
            k
        }
        2 => {
            let mut k = k;
            if let Some(l) = k.last_mut() {
                *l = l.wrapping_add(1);
            }
            k
        }
        3 => (0..rng.range(0, 3)).map(|_| rng.below(256) as u8).collect(),
        4 => vec![],
        5 => vec![0xff; 3],
        _ => k,
    }
}

pub fn gen_hist(rng: &mut Rng, profile: Profile, size: Size) -> Plan {
    let mut krng = rng.fork("knobs");
    let mut prng = rng.fork("plan");
    let n_opens = 1 + prng.usize_below(size.max_reopens + 1);
    let opens: Vec<Knobs> = (0..n_opens).map(|_| Knobs::gen(&mut krng)).collect();
    let nkeys = prng.range(2, size.max_keys as u64) as usize;
    let keys = gen_keys(&mut prng, nkeys);
    let vp = ValProfile::gen(&mut prng, &opens[0]);
    let mut tags = TagGen::new();
    let mut w = base_weights(profile);
    // swarm: knock out some alphabet entries for this run
    for x in [DELETE, BATCH, COMPACT, FLUSH, QUIESCE, REOPEN, SNAP, ITEROPEN, BURST, GETMANY] {
        if prng.chance(1, 6) {
            w[x] = 0;
        }
    }
    // hot-key bias: a small subset of keys receives most writes in some runs
    let hot: Vec<usize> = if prng.chance(1, 2) { (0..keys.len().min(1 + prng.usize_below(4))).map(|_| prng.usize_below(keys.len())).collect() } else { vec![] };
    let pick_key = |r: &mut Rng| -> usize {
        if !hot.is_empty() && r.chance(3, 5) {
            *r.pick(&hot)
        } else {
            r.usize_below(keys.len())
        }
    };
    let n_ops = prng.range(size.min_ops as u64, size.max_ops as u64) as usize;
    let mut ops: Vec<Op> = vec![];
    let mut snaps: Vec<usize> = vec![];
    let mut iters: Vec<usize> = vec![];
    let mut next_slot = 0usize;
    let mut reopens_left = n_opens - 1;
    while ops.len() < n_ops {
        let kind = prng.weighted(&w);
        match kind {
            PUT => ops.push(Op::Put { k: pick_key(&mut prng), v: tags.val(&mut prng, &vp) }),
            DELETE => ops.push(Op::Delete { k: pick_key(&mut prng) }),
            BATCH => {
                let cap = if prng.chance(1, 10) { 16 } else { 5 };
                let n = 1 + prng.usize_below(cap);
                let items = (0..n).map(|_| (pick_key(&mut prng), if prng.chance(1, 5) { None } else { Some(tags.val(&mut prng, &vp)) })).collect();
                ops.push(Op::Batch { items });
            }
            BURST => {
                // a burst of writes large enough to rotate the memtable a few times
                let n = 4 + prng.usize_below(24);
                for _ in 0..n {
                    if prng.chance(1, 6) {
                        ops.push(Op::Delete { k: pick_key(&mut prng) });
                    } else {
                        ops.push(Op::Put { k: pick_key(&mut prng), v: tags.val(&mut prng, &vp) });
                    }
                }
            }
            GET => ops.push(Op::Get { k: prng.usize_below(keys.len()) }),
            GETMANY => ops.push(Op::GetMany { k: prng.usize_below(keys.len()), n: 2 + prng.below(25) as u32 }),
            SNAP => {
                if snaps.len() < 4 {
                    snaps.push(next_slot);
                    ops.push(Op::Snap { slot: next_slot });
                    next_slot += 1;
                }
            }
            RELEASE => {
                if !snaps.is_empty() {
                    let i = prng.usize_below(snaps.len());
                    ops.push(Op::Release { slot: snaps.remove(i) });
                }
            }
            GETSNAP => {
                if !snaps.is_empty() {
                    ops.push(Op::GetSnap { slot: *prng.pick(&snaps), k: pick_key(&mut prng) });
                }
            }
            SNAPDUMP => {
                if !snaps.is_empty() {
                    ops.push(Op::SnapDump { slot: *prng.pick(&snaps) });
                }
            }
            ITEROPEN => {
                if iters.len() < 3 {
                    let snap = if !snaps.is_empty() && prng.chance(1, 3) { Some(*prng.pick(&snaps)) } else { None };
                    iters.push(next_slot);
                    ops.push(Op::IterOpen { slot: next_slot, snap });
                    if prng.chance(1, 2) {
                        ops.push(Op::IterFirst { slot: next_slot });
                    }
                    next_slot += 1;
                }
            }
            ITERSEEK | ITERFIRST | ITERLAST | ITERNEXT | ITERPREV | ITERDUMP => {
                if !iters.is_empty() {
                    let slot = *prng.pick(&iters);
                    ops.push(match kind {
                        ITERSEEK => Op::IterSeek { slot, key: seek_target(&mut prng, &keys) },
                        ITERFIRST => Op::IterFirst { slot },
                        ITERLAST => Op::IterLast { slot },
                        ITERNEXT => Op::IterNext { slot },
                        ITERPREV => Op::IterPrev { slot },
                        _ => Op::IterDump { slot },
                    });
                }
            }
            ITERCLOSE => {
                if !iters.is_empty() {
                    let i = prng.usize_below(iters.len());
                    ops.push(Op::IterClose { slot: iters.remove(i) });
                }
            }
            COMPACT => {
                let a = prng.pick(&keys).clone();
                let b = prng.pick(&keys).clone();
                let (lo, hi) = if a <= b { (a, b) } else { (b, a) };
                let (start, end) = match prng.below(12) {
                    0..=3 => (None, None),
                    4 | 5 => (None, Some(hi)),
                    6 | 7 => (Some(lo), None),
                    8 | 9 => (Some(lo), Some(hi)),
                    10 => (Some(lo.clone()), Some(lo)),
                    _ => (Some(hi), Some(lo)),
                };
                ops.push(Op::CompactRange { start, end });
            }
            FLUSH => ops.push(Op::Flush),
            QUIESCE => ops.push(Op::Quiesce),
            REOPEN => {
                if reopens_left > 0 {
                    let idx = n_opens - reopens_left;
                    reopens_left -= 1;
                    // snapshots and iterators do not survive a reopen
                    snaps.clear();
                    iters.clear();
                    ops.push(Op::Reopen { idx });
                }
            }
            CHECKALL => ops.push(Op::CheckAll),
            DIRCHECK => ops.push(Op::DirCheck),
            DESCRIPTOR => ops.push(Op::Descriptor { kind: prng.below(9) as u8 }),
            _ => {}
        }
    }
    Plan { keys, opens, ops, clients: vec![], tail: vec![] }
}
