//! One `CheckSpec` per claimed property.

use crate::batch::{CheckSpec, Tier};
use crate::exec::{run_case, Case, CaseResult, Engine};
use crate::gen::{gen_conc, gen_hist, ConcProfile, Profile, BASE_QUICK, BASE_THOROUGH, QUICK, THOROUGH};
use crate::rng::Rng;
use crate::plan::Op;
use crate::sched::{SchedSpec, Strategy};
use serde_json::json;
use std::collections::BTreeMap;

pub fn gen_strategy(rng: &mut Rng, est_steps: u32, concurrent: bool) -> SchedSpec {
    let seed = rng.next_u64();
    // est_steps is an estimate of the number of CHOICE points (scheduling points with more than one
    // runnable task) of the run; measured ratios are 40-300 per client operation depending on the
    // workload, so the horizon for change points / freeze triggers is drawn log-uniformly over
    // [0.1, 3] x the estimate
    let factor = (0.1f64.ln() + rng.f64() * (3.0f64.ln() - 0.1f64.ln())).exp();
    let est = ((est_steps as f64) * factor) as u32 + 10;
    let w: [u32; 4] = if concurrent { [20, 20, 30, 30] } else { [30, 30, 15, 25] };
    let strategy = match rng.weighted(&w) {
        0 => Strategy::Random,
        1 => Strategy::Sticky { q_permille: *rng.pick(&[500u32, 800, 950, 990]) },
        2 => Strategy::Pct { depth: 1 + rng.below(4) as u32, est_steps: est },
        _ => Strategy::Freeze { k: 1 + rng.below(4) as u32, est_steps: est, budget: *rng.pick(&[200u32, 2000, 20000, 60000]), sticky_permille: *rng.pick(&[0u32, 500, 900]) },
    };
    SchedSpec { strategy, seed }
}

pub fn exec_case(case: &Case) -> CaseResult {
    match case.engine {
        Engine::Hist => exec_hist(case),
        Engine::Conc => exec_conc(case),
        Engine::Crash => run_case(case, crate::crash::body),
        Engine::LogSim => run_case(case, crate::logsim::body),
        Engine::IoFault => exec_iofault(case),
        Engine::Corrupt => {
            if std::env::var_os("RAINSIM_IN_CHILD").is_some() {
                run_case(case, crate::corrupt::body)
            } else {
                exec_corrupt_in_child(case)
            }
        }
        Engine::LockRace => {
            let mut r = run_case(case, crate::lockrace::body);
            crate::lockrace::classify_findings(&mut r);
            r
        }
        _ => unimplemented!("engine {:?}", case.engine),
    }
}

/// Bounded liveness (C09): a run that exceeds the step bound under an unfair scheduler (PCT,
/// Freeze) is re-executed under fair round robin; only if that also exceeds the bound is it a
/// violation, otherwise it is counted as an unfair-schedule timeout.
fn exec_conc(case: &Case) -> CaseResult {
    exec_with_fair_rerun(case, crate::conc::body)
}

fn exec_hist(case: &Case) -> CaseResult {
    exec_with_fair_rerun(case, crate::hist::body)
}

fn exec_with_fair_rerun(case: &Case, body: fn(&Case, &crate::exec::Shared)) -> CaseResult {
    let mut res = run_case(case, body);
    if let Some(pos) = res.findings.iter().position(|f| f.class == "step-bound") {
        let mut fair = case.clone();
        fair.sched = SchedSpec { strategy: Strategy::RoundRobin, seed: case.sched.seed };
        fair.schedule = None;
        // a long plan is not a livelock: the fair re-run gets twenty times the step budget
        fair.max_steps = Some(case.max_steps.unwrap_or(crate::exec::DEFAULT_MAX_STEPS).saturating_mul(20));
        let r2 = run_case(&fair, body);
        if r2.findings.iter().any(|f| f.class == "step-bound") {
            res.findings[pos].properties = vec!["C09".into()];
            res.findings[pos].detail.push_str("; the same plan under a fair round-robin schedule also exceeds twenty times the bound");
        } else {
            res.findings.remove(pos);
            res.stats.bump("unfair_schedule_timeouts", 1);
        }
    }
    res
}

fn conc_case(run_seed: u64, tier: Tier, profile: ConcProfile) -> Case {
    let mut rng = Rng::new(run_seed);
    let (mut plan, mut params) = gen_conc(&mut rng, profile, tier == Tier::Thorough);
    // alignment directives (a stream of their own: plans without them are unchanged): in a third of
    // the runs some client operations, and in half of those the final close, start exactly when
    // another task sits at a drawn kind of scheduling point
    if rng.fork("reopen-split").chance(1, 5) {
        // close + reopen between the two halves of every client's program
        params.insert("reopen_split".to_string(), 1);
    }
    let mut arng = rng.fork("align");
    if profile == ConcProfile::C09 && arng.chance(1, 3) {
        // close right after the last client returned, while flushes / compactions are in flight
        // (only effective in runs that do not quiesce first)
        params.insert("early_close".to_string(), 1);
        if arng.chance(3, 4) {
            // ... and exactly when the background thread lets go of the database mutex (the end of a
            // background task is such a point) or sits at another drawn point
            let mask = *arng.pick(&[1i64 << 8, 1 << 8, 0b110, 1 << 3, 0x1ff]) | if arng.chance(1, 2) { crate::sched::ALIGN_HOLD as i64 } else { 0 };
            params.insert("close_align_mask".to_string(), mask);
            params.insert("close_align_nth".to_string(), *arng.pick(&[1i64, 1, 2, 3, 5]));
        }
    }
    if arng.chance(1, 3) {
        let one_in = *arng.pick(&[3u64, 5, 8]);
        for c in plan.clients.iter_mut() {
            crate::plan::add_aligns(&mut arng, c, one_in);
        }
        if arng.chance(1, 2) && !params.contains_key("close_align_mask") {
            if let Op::Align { mask, nth } = crate::plan::gen_align(&mut arng) {
                params.insert("close_align_mask".to_string(), mask as i64);
                params.insert("close_align_nth".to_string(), nth as i64);
            }
        }
    }
    let est = (plan.op_count() as u32) * 60;
    let sched = gen_strategy(&mut rng.fork("sched"), est, true);
    Case { engine: Engine::Conc, run_seed, plan, sched, schedule: None, fault: None, params, image: None, max_steps: Some(2_000_000), log_plan: None, lock_plan: None, corrupt: None }
}

fn conc_spec(prop: &'static str, profile: ConcProfile, rule: &'static str, probes: &'static [&'static str], runs: (u64, u64)) -> CheckSpec {
    CheckSpec {
        prop,
        level: "exploration",
        rule,
        assumptions: HIST_ASSUMPTIONS.iter().map(|s| s.to_string()).collect(),
        expected_probes: probes,
        gen: Box::new(move |rs, _i, tier| conc_case(rs, tier, profile)),
        exec: Box::new(exec_case),
        evals: Box::new(|_| 1),
        runs_quick: runs.0,
        runs_thorough: runs.1,
        wall_quick: 60.0,
        wall_thorough: 1200.0,
        shrink_plan: true,
        narrow: None,
        exhaustive: false,
        extra: json!({"engine": "conc: 2-5 client tasks + the real background compaction thread on SimFs under SimScheduler; history stamped with the global event sequence number"}),
    }
}

fn hist_case(run_seed: u64, tier: Tier, profile: Profile) -> Case {
    let mut rng = Rng::new(run_seed);
    let size = if tier == Tier::Quick { QUICK } else { THOROUGH };
    let mut plan = gen_hist(&mut rng, profile, size);
    if matches!(profile, Profile::C01 | Profile::C10 | Profile::C11) && rng.fork("boundary").chance(1, 12) {
        // WAL records around the first 32 KiB block boundary, kept in the log (1 MiB memtable) across
        // the plan's clean reopens (reuse_log_files appends to such a log, or replays it)
        crate::gen::boundary_prefix(&mut rng.fork("boundary-shape"), &mut plan);
    }
    let mut grng = rng.fork("giant-batch");
    // (off by default: with 65 000 entries the memtable's skip list makes one flush take minutes -
    // the runs of a quick C02 batch that contained such a plan did not finish within 15 minutes)
    if std::env::var_os("RAINSIM_GIANT_BATCH").is_some() && grng.chance(1, 120) {
        // a batch whose operation count does not fit 16 bits, usually followed by a reopen (the
        // write-ahead log record is then decoded again) and a full comparison
        let reopen = grng.chance(2, 3);
        crate::gen::giant_batch(&mut grng, &mut plan, reopen);
    }
    let mut arng = rng.fork("align");
    if arng.chance(1, 5) {
        let one_in = *arng.pick(&[4u64, 8, 16]);
        crate::plan::add_aligns(&mut arng, &mut plan.ops, one_in);
    }
    let est = (plan.op_count() as u32) * 80;
    let sched = gen_strategy(&mut rng.fork("sched"), est, false);
    Case { engine: Engine::Hist, run_seed, plan, sched, schedule: None, fault: None, params: BTreeMap::new(), image: None, max_steps: None, log_plan: None, lock_plan: None, corrupt: None }
}

const HIST_ASSUMPTIONS: &[&str] = &[
    "sampling, not proof: a clean batch is evidence over the explored runs only",
    "tasks are atomic between scheduling points (lock/condvar/channel operations, a point of its own AFTER every mutex release, unlocked_fair entry/exit, SimFs calls, H4 hooks); intra-skiplist interleavings and weak-memory effects are not explored",
    "the parking_lot shim provides mutual exclusion and condvar wake-ups and nothing stronger than parking_lot",
    "SimFs models POSIX file semantics as used by fs_disk.rs; no short reads/writes, no EINTR",
];

fn hist_spec(prop: &'static str, profile: Profile, rule: &'static str, probes: &'static [&'static str], runs: (u64, u64)) -> CheckSpec {
    CheckSpec {
        prop,
        level: "exploration",
        rule,
        assumptions: HIST_ASSUMPTIONS.iter().map(|s| s.to_string()).collect(),
        expected_probes: probes,
        gen: Box::new(move |rs, _i, tier| hist_case(rs, tier, profile)),
        exec: Box::new(exec_case),
        evals: Box::new(|_| 1),
        runs_quick: runs.0,
        runs_thorough: runs.1,
        wall_quick: 60.0,
        wall_thorough: 1200.0,
        shrink_plan: true,
        narrow: None,
        exhaustive: false,
        extra: json!({"engine": "hist: 1 client task + the real background compaction thread on SimFs under SimScheduler"}),
    }
}

pub fn run_child(case: &Case) -> (Option<CaseResult>, Option<Case>, Option<usize>, String) {
    use std::io::Write;
    let exe = match std::env::current_exe() {
        Ok(e) => e,
        Err(e) => return (None, None, None, format!("current_exe: {}", e)),
    };
    let mut child = match std::process::Command::new(exe).arg("exec-case").env("RAINSIM_IN_CHILD", "1").stdin(std::process::Stdio::piped()).stdout(std::process::Stdio::piped()).stderr(std::process::Stdio::piped()).spawn() {
        Ok(c) => c,
        Err(e) => return (None, None, None, format!("spawn: {}", e)),
    };
    {
        let mut stdin = child.stdin.take().unwrap();
        let _ = stdin.write_all(serde_json::to_string(case).unwrap().as_bytes());
    }
    let out = match child.wait_with_output() {
        Ok(o) => o,
        Err(e) => return (None, None, None, format!("wait: {}", e)),
    };
    let stdout = String::from_utf8_lossy(&out.stdout);
    let stderr = String::from_utf8_lossy(&out.stderr);
    let res = stdout.lines().find_map(|l| l.strip_prefix("RESULT ")).and_then(|j| serde_json::from_str::<CaseResult>(j).ok());
    let derived = stdout.lines().find_map(|l| l.strip_prefix("DERIVED ")).and_then(|j| serde_json::from_str::<Case>(j).ok());
    let progress = stderr.lines().rev().find_map(|l| l.strip_prefix("PROGRESS ")).and_then(|n| n.trim().parse().ok());
    (res, derived, progress, format!("status {:?}", out.status))
}

/// C15 reopen simulations run in a child process: a corrupted length field that is not covered by
/// a checksum can request an allocation so large that the process aborts instead of unwinding. An
/// abort is an outcome ("neither an error nor correct data"), never a harness crash.
fn exec_corrupt_in_child(case: &Case) -> CaseResult {
    // A child hands the rest of its mutation list over to a fresh process when it has spawned so
    // many tasks that their stack mappings get scarce (`recycle_at`); the results are merged.
    let mut merged: Option<CaseResult> = None;
    let mut from = case.params.get("mut_from").copied().unwrap_or(0);
    let (res, progress, status) = loop {
        let mut c = case.clone();
        c.params.insert("mut_from".into(), from);
        let (res, _, progress, status) = run_child(&c);
        match res {
            Some(mut r) => {
                let next = r.stats.extra.remove("recycle_at");
                let r = match merged.take() {
                    None => r,
                    Some(mut m) => {
                        m.stats.absorb(&r.stats);
                        m.findings.extend(r.findings);
                        m.completed = m.completed && r.completed;
                        m
                    }
                };
                match next {
                    Some(n) if (n as i64) > from && r.findings.iter().filter(|f| f.concerns("C15")).count() < 3 => {
                        from = n as i64;
                        merged = Some(r);
                    }
                    _ => break (Some(r), progress, status),
                }
            }
            None => break (None, progress, status),
        }
    };
    if let Some(r) = res {
        return r;
    }
    let mut r = CaseResult {
        findings: vec![],
        stats: Default::default(),
        trace: vec![],
        schedule: vec![],
        history_digest: 0,
        fs_digest: 0,
        sched_digest: 0,
        completed: false,
        abort: Some(status.clone()),
        replay_diverged: None,
        derived: None,
    };
    let what = match progress {
        Some(n) => format!("the process running the reopen simulations died ({}) while checking mutation #{} of this image: reading the corrupted file killed the process instead of returning an error", status, n),
        None => format!("the process running the reopen simulation died ({}): reading the corrupted file killed the process instead of returning an error", status),
    };
    let mut f = crate::world::Finding { properties: vec!["C15".into()], class: "process-abort-on-corrupt-file".into(), signature: "process-abort-on-corrupt-file".into(), detail: what, seq: 0, op_index: progress, fault: None };
    // fetch a self-contained case for the replay file: the child prints it before it dies
    if case.corrupt.is_none() {
        if let Some(n) = progress {
            let mut c = case.clone();
            c.params.insert("only_mutation".into(), n as i64);
            c.params.insert("dump_derived".into(), 1);
            let (_, derived, _, _) = run_child(&c);
            if let Some(d) = derived {
                f.detail.push_str(&format!("; mutation: {}", d.corrupt.as_ref().map(|s| s.what.clone()).unwrap_or_default()));
                r.derived = Some(Box::new(d));
            }
        }
    }
    r.findings.push(f);
    r.stats.bump("corruptions_checked", progress.map(|p| p as u64 + 1).unwrap_or(1));
    r
}

/// Whether (and at which call of the recovery, 1-based; 0 = not at all) a faulted run gets a second,
/// transient fault: a function of the base run, the fault position and the mode, so that the
/// enumeration, a narrowed case and a replay file agree.
fn recovery_fault_for(run_seed: u64, at_call: u64, mode: crate::simfs::FaultMode) -> i64 {
    let m = match mode {
        crate::simfs::FaultMode::Transient => 1u64,
        crate::simfs::FaultMode::Sticky => 2,
        crate::simfs::FaultMode::PartialWrite => 3,
    };
    let mut r = Rng::new(crate::rng::mix2(crate::rng::mix2(run_seed, 0x2EC0), at_call * 4 + m));
    if r.chance(1, 3) {
        1 + r.below(60) as i64
    } else {
        0
    }
}

/// C08: number the filesystem calls of the plan with a fault-free run, then re-execute the same
/// plan and scheduler seed once per (position, mode) with that call failing.
fn exec_iofault(case: &Case) -> CaseResult {
    use crate::simfs::{CallKind, FaultMode, FaultSpec};
    if let Some(f) = &case.fault {
        // (narrowed cases and replay files: the recovery-fault decision is a function of the case)
        let mut derived = case.clone();
        if case.params.get("recovery_fault_derive").copied().unwrap_or(0) != 0 && !case.params.contains_key("recovery_fault") {
            derived.params.insert("recovery_fault".to_string(), recovery_fault_for(case.run_seed, f.at_call, f.mode));
        }
        let case = &derived;
        let mut r = run_case(case, crate::iofault::body);
        for f in r.findings.iter_mut() {
            f.fault = case.fault.clone();
        }
        r.stats.bump("faulted_runs", 1);
        return r;
    }
    let mut base = run_case(case, crate::iofault::body);
    if !base.completed || base.findings.iter().any(|f| f.concerns("C08")) {
        // a fault-free run must be clean; whatever it found is reported as is
        return base;
    }
    let sites = std::mem::take(&mut base.stats.call_sites);
    let n = sites.len();
    let max_points = case.params.get("max_points").copied().unwrap_or(40) as usize;
    let mut rng = Rng::new(crate::rng::mix2(case.run_seed, 0x10FA));
    let mut positions: Vec<usize> = (0..n).collect();
    // positions from the table-read quota are tried with the transient mode only (a persistent
    // failure of reads is the less interesting half; the budget goes into more positions instead)
    let mut quota_only: std::collections::BTreeSet<usize> = Default::default();
    if n > max_points {
        // stratify: first occurrence(s) of every (kind, class) pair, then a uniform sample
        let mut seen: BTreeMap<(CallKind, crate::simfs::FileClass), u32> = BTreeMap::new();
        let mut keep: Vec<usize> = vec![];
        let mut rest: Vec<usize> = vec![];
        for (i, s) in sites.iter().enumerate() {
            let c = seen.entry(*s).or_insert(0);
            *c += 1;
            if *c <= 2 {
                keep.push(i);
            } else {
                rest.push(i);
            }
        }
        rng.shuffle(&mut keep);
        keep.truncate(max_points * 2 / 3);
        rng.shuffle(&mut rest);
        // reads of table files are where iterators and compactions meet a failing disk: they get a
        // quota of their own (a third of the budget on top), the remaining budget is uniform
        let table_reads: Vec<usize> = rest.iter().copied().filter(|i| sites[*i].1 == crate::simfs::FileClass::Table && matches!(sites[*i].0, CallKind::Read | CallKind::Open)).take(max_points * 2 / 3).collect();
        rest.retain(|i| !table_reads.contains(i));
        rest.truncate(max_points.saturating_sub(keep.len()));
        keep.extend(rest);
        quota_only = table_reads.iter().copied().collect();
        keep.extend(table_reads);
        keep.sort_unstable();
        positions = keep;
    } else {
        base.stats.bump("base_runs_enumerated_completely", 1);
    }
    let mut total = base.clone();
    total.stats.bump("fault_positions_in_base_runs", n as u64);
    for p in positions {
        let modes: Vec<FaultMode> = if quota_only.contains(&p) { vec![FaultMode::Transient] } else if sites[p].0 == CallKind::Write { vec![FaultMode::Transient, FaultMode::Sticky, FaultMode::PartialWrite] } else { vec![FaultMode::Transient, FaultMode::Sticky] };
        for mode in modes {
            let mut c = case.clone();
            c.fault = Some(FaultSpec { at_call: p as u64, mode, keep: rng.below(64) });
            if case.params.get("recovery_fault_derive").copied().unwrap_or(0) != 0 {
                // in a third of the cases a second, transient fault at the k-th filesystem call of
                // the recovery that follows (0 = none)
                c.params.insert("recovery_fault".to_string(), recovery_fault_for(case.run_seed, p as u64, mode));
            }
            let r = run_case(&c, crate::iofault::body);
            total.stats.absorb(&r.stats);
            total.stats.bump("faulted_runs", 1);
            for mut f in r.findings {
                // hangs under a persistent fault are not C09 violations (the filesystem makes no progress)
                if mode == FaultMode::Sticky && f.concerns("C09") {
                    total.stats.bump("hang_or_panic_under_sticky_fault", 1);
                    continue;
                }
                if mode != FaultMode::Sticky && (f.class == "deadlock" || f.class == "bg-panic") {
                    f.properties.push("C08".into());
                }
                f.fault = c.fault.clone();
                f.op_index = Some(p);
                f.detail = format!("[{:?} fault at call {} = {:?} on {}] {}", mode, p, sites[p].0, crate::exec::class_name(sites[p].1), f.detail);
                total.findings.push(f);
            }
            if total.findings.iter().filter(|f| f.concerns("C08")).count() >= 3 {
                return total;
            }
        }
    }
    total
}

fn iofault_case(run_seed: u64, tier: Tier) -> Case {
    let mut rng = Rng::new(run_seed);
    let size = if tier == Tier::Quick { crate::gen::Size { min_ops: 4, max_ops: 40, max_keys: 12, max_reopens: 1 } } else { BASE_THOROUGH };
    let mut plan = gen_hist(&mut rng, Profile::Base, size);
    // reads between the writes so that "Ok write not visible" can be observed
    let mut ops = vec![];
    let mut prng = rng.fork("reads");
    for op in plan.ops.drain(..) {
        let k = match &op {
            Op::Put { k, .. } | Op::Delete { k } => Some(*k),
            Op::Batch { items } => items.first().map(|(k, _)| *k),
            _ => None,
        };
        ops.push(op);
        if let Some(k) = k {
            if prng.chance(1, 2) {
                ops.push(Op::Get { k });
            }
        }
    }
    // full scans (forward and backward) while the fault is armed: a scan that returns without an
    // error must show explainable contents (an iterator must not swallow a failed read)
    let mut srng2 = rng.fork("scans");
    for _ in 0..srng2.range(1, 3) {
        let at = srng2.usize_below(ops.len() + 1);
        ops.insert(at, Op::CheckAll);
    }
    ops.push(Op::CheckAll);
    plan.ops = ops;
    let boundary = rng.fork("boundary").chance(1, 8);
    if boundary {
        crate::gen::boundary_prefix(&mut rng.fork("boundary-shape"), &mut plan);
    }
    // 40% of the plans end with 2-3 concurrent writers on disjoint key sets (group commits under
    // faults: the leader's error must reach its followers and vice versa)
    let mut crng = rng.fork("clients");
    if crng.chance(2, 5) {
        let nc = crng.range(2, 3) as usize;
        let nk = plan.keys.len().max(nc);
        while plan.keys.len() < nk {
            plan.keys.push(format!("extra-{}", plan.keys.len()).into_bytes());
        }
        let mut tag = 100_000u32;
        for c in 0..nc {
            let mine: Vec<usize> = (0..plan.keys.len()).filter(|k| k % nc == c).collect();
            let n = crng.range(3, 12) as usize;
            let mut ops = vec![];
            for _ in 0..n {
                let k = *crng.pick(&mine);
                tag += 1;
                match crng.weighted(&[50, 10, 15, 25]) {
                    0 => ops.push(Op::Put { k, v: crate::plan::Val { tag, len: 12 + crng.below(200) as u32 } }),
                    1 => ops.push(Op::Delete { k }),
                    2 => {
                        let k2 = *crng.pick(&mine);
                        tag += 1;
                        ops.push(Op::Batch { items: vec![(k, Some(crate::plan::Val { tag: tag - 1, len: 20 })), (k2, Some(crate::plan::Val { tag, len: 20 }))] });
                    }
                    _ => ops.push(Op::Get { k }),
                }
            }
            plan.clients.push(ops);
        }
        // the single-client part must not touch... it may: main's writes precede all client writes
    }
    let mut srng = rng.fork("sched");
    // low-preemption schedules: the fault space here is the failing call
    let q = if plan.clients.is_empty() { *srng.pick(&[1000u32, 990, 900]) } else { *srng.pick(&[900u32, 700, 500]) };
    let mut sched = SchedSpec { strategy: Strategy::Sticky { q_permille: q }, seed: srng.next_u64() };
    // one plan in five runs under the uniformly random (fair) scheduler instead: a failing read then
    // also meets a flush or compaction that completes inside the reader's unlocked window
    let mut krng = rng.fork("sched-kind");
    if krng.chance(1, 5) {
        // ... or, half of these, with Freeze: a reader parked inside its unlocked section while the
        // background thread installs new versions (bounded: a parked task is released after its
        // budget or when everybody else is blocked, so no run is starved)
        sched.strategy = if krng.chance(1, 2) { Strategy::Random } else { Strategy::Freeze { k: 1 + krng.below(3) as u32, est_steps: (plan.op_count() as u32) * 40 + 50, budget: *krng.pick(&[2000u32, 20000]), sticky_permille: 900 } };
    }
    let mut params = BTreeMap::new();
    // boundary plans are about a handful of specific calls (the length query, the padding write, the
    // fragment headers): enumerate nearly all of their positions also in the quick tier
    params.insert("max_points".to_string(), if tier == Tier::Quick { if boundary { 160 } else { 30 } } else { 100_000 });
    params.insert("recovery_fault_derive".to_string(), 1);
    Case { engine: Engine::IoFault, run_seed, plan, sched, schedule: None, fault: None, params, image: None, max_steps: Some(3_000_000), log_plan: None, lock_plan: None, corrupt: None }
}

fn iofault_spec() -> CheckSpec {
    CheckSpec {
        prop: "C08",
        level: "fault_enumeration",
        rule: "one evaluation = one faulted run: a plan (4-40 ops quick, -150 thorough: puts, deletes, batches, gets after writes, flushes, compact_range, clean reopen; 40% of the plans end with 2-3 concurrent writers on disjoint key sets so that group commits run under faults) is first executed without faults to number its filesystem calls (all kinds: mkdir, list, open, read, len/size, create, write, rename, remove, lock), then re-executed with the same scheduler seed once per (call position, mode) with mode in {transient: that call fails, sticky: that call and all later ones fail, partial write: a failing write leaves a prefix behind (write calls only)}. Quick tier: <=30 positions per base run, stratified by (call kind, file class); thorough: all positions. Oracle during the run: every call returns Ok or Err (a panic is a violation); a get that returns Ok must return the value of the last Ok write or of a failed write issued after it. Scans and an iterator program (full forward and backward walk with one iterator, a seek back to the key at which a step reported an error, then seeks to present and absent keys) run while the fault is armed: an Ok answer with an empty status() must be explainable. In a third of the faulted runs a second, transient fault hits the k-th filesystem call (k in 1..60) of an intermediate reopen; whatever that open returns, the clean reopen that follows is judged by the same oracle. A fifth of the plans run under the random or the Freeze scheduler instead of low-preemption ones; table reads get a quota of fault positions of their own. After disarming, closing and reopening: every key must be explainable by the Ok writes plus a subset of the failed writes, failed put-only batches all-or-nothing, and the reopen must succeed if anything was acknowledged. distinct_nontrivial = distinct coverage signatures (fault site = mode x call kind x file class, shapes).",
        assumptions: vec![
            "one injected failure per run (single position; sticky = persistent from that position), plus, in a third of the faulted runs, one transient failure at a drawn call of the recovery that follows".into(),
            "no short reads/writes without error, no EINTR: not injected because no listed property speaks about them".into(),
            "hangs/panics of background work under a sticky (persistent) fault are counted, not reported: C09 is conditional on the filesystem making progress".into(),
        ],
        expected_probes: &[],
        gen: Box::new(|rs, _i, tier| iofault_case(rs, tier)),
        exec: Box::new(exec_case),
        evals: Box::new(|r| r.stats.extra.get("faulted_runs").copied().unwrap_or(0).max(1)),
        runs_quick: 1500,
        runs_thorough: 60_000,
        wall_quick: 70.0,
        wall_thorough: 1500.0,
        shrink_plan: false,
        narrow: Some(Box::new(|case, f, _res| {
            let mut c = case.clone();
            c.fault = Some(f.fault.clone()?);
            Some(c)
        })),
        exhaustive: false,
        extra: json!({"engine": "iofault: real DB + background thread on SimFs with one armed fault per run"}),
    }
}

fn corrupt_case(run_seed: u64, tier: Tier) -> Case {
    let mut rng = Rng::new(run_seed);
    let size = crate::gen::Size { min_ops: 3, max_ops: if tier == Tier::Quick { 30 } else { 60 }, max_keys: 10, max_reopens: 0 };
    let mut plan = gen_hist(&mut rng, Profile::Base, size);
    // small images: few, small files so that every offset can be visited
    let mut krng = rng.fork("cknobs");
    plan.opens[0].max_memtable_size = *krng.pick(&[700usize, 1500, 4096, 65536]);
    plan.opens[0].max_block_size = *krng.pick(&[64usize, 256, 4096]);
    plan.opens[0].table_cache_cap = 1000;
    for op in plan.ops.iter_mut() {
        if let Op::Put { v, .. } = op {
            if v.len > 400 {
                v.len = 40 + v.len % 300;
            }
        }
        if let Op::Batch { items } = op {
            for (_, v) in items.iter_mut() {
                if let Some(v) = v {
                    if v.len > 400 {
                        v.len = 40 + v.len % 300;
                    }
                }
            }
        }
    }
    let mut brng = rng.fork("big-block");
    if brng.chance(1, 8) || std::env::var_os("RAINSIM_FORCE_BIGBLOCK").is_some() {
        // one image in eight holds one value that is a table block of its own far above the usual
        // sizes: 70-140 KiB of one repeated letter (stored Snappy-compressed as several 64 KiB
        // frames), or 200 KiB / 1.1 MiB of incompressible letters (stored raw). Size-dependent paths
        // of the block reader (frame decoding, large-buffer handling) are otherwise never entered.
        let max_tag = plan
            .ops
            .iter()
            .flat_map(|o| match o {
                Op::Put { v, .. } => vec![v.tag],
                Op::Batch { items } => items.iter().filter_map(|(_, v)| v.as_ref().map(|v| v.tag)).collect(),
                _ => vec![],
            })
            .max()
            .unwrap_or(0);
        let compressible = brng.chance(1, 2);
        // Val::bytes pads every third tag with one repeated letter
        let mut tag = max_tag + 1;
        while (tag % 3 == 0) != compressible {
            tag += 1;
        }
        let len = if compressible { *brng.pick(&[70_000u32, 140_000, 1_100_000]) } else { *brng.pick(&[200_000u32, 1_150_000]) };
        let at = brng.usize_below(plan.ops.len() + 1);
        let k = brng.usize_below(plan.keys.len().max(1));
        plan.ops.insert(at, Op::Put { k, v: crate::plan::Val { tag, len } });
        if brng.chance(3, 4) {
            plan.ops.insert(at + 1, Op::Flush);
        }
    }
    if rng.fork("boundary").chance(1, 6) || std::env::var_os("RAINSIM_FORCE_BOUNDARY").is_some() {
        // one image in six holds a WAL whose first record ends at / crosses the first 32 KiB block
        // boundary (fragmented records, trailer padding) - everything else in these images is tiny
        crate::gen::boundary_prefix(&mut rng.fork("boundary-shape"), &mut plan);
    }
    let mut srng = rng.fork("sched");
    let sched = SchedSpec { strategy: Strategy::Sticky { q_permille: 990 }, seed: srng.next_u64() };
    let mut params = BTreeMap::new();
    params.insert("clean_close".to_string(), srng.below(2) as i64);
    params.insert("reuse".to_string(), srng.below(2) as i64);
    params.insert("max_offsets_per_file".to_string(), if tier == Tier::Quick { 120 } else { 100_000 });
    Case { engine: Engine::Corrupt, run_seed, plan, sched, schedule: None, fault: None, params, image: None, max_steps: Some(50_000_000), log_plan: None, lock_plan: None, corrupt: None }
}

fn corrupt_spec() -> CheckSpec {
    CheckSpec {
        prop: "C15",
        level: "fault_enumeration",
        rule: "one evaluation = one mutated filesystem image + reopen simulation. Base: a small recorded run (3-30 ops quick, -60 thorough; 1-3 tables, a WAL with a few batches, a manifest), closed cleanly or killed. For every table, WAL and manifest file of the image and every offset (all offsets in the thorough tier and for files <= 120 bytes; otherwise the first 16 and last 64 bytes plus a seeded sample of 120) the byte is replaced by {one flipped bit, 0x00, a random byte}; tables are additionally truncated at sampled/every length. Reopen simulation: DB::open, get of every universe key, forward and backward scan. Oracle: every call returns Err or exactly the model's answer; a scan that ends without error must equal the model exactly; for WAL files, additionally any state equal to the model minus a set of whole batches that live in that WAL (brute force over subsets of the last 10). A panic is a violation. distinct_nontrivial = distinct (files, writes, close mode) shapes x probes (mutation kind x file class).",
        assumptions: vec![
            "single-byte corruption or table truncation of one file per evaluation".into(),
            "reopen simulations run in a child process; a child that dies (e.g. allocation failure on a corrupted, unchecksummed footer handle) is reported as a violation for the mutation it was checking, never as a harness crash".into(),
        ],
        expected_probes: &["corrupt@bitflip:table", "corrupt@bitflip:wal", "corrupt@bitflip:manifest", "corrupt@truncate:table"],
        gen: Box::new(|rs, _i, tier| corrupt_case(rs, tier)),
        exec: Box::new(exec_case),
        evals: Box::new(|r| r.stats.extra.get("corruptions_checked").copied().unwrap_or(0).max(1)),
        runs_quick: 220,
        runs_thorough: 20_000,
        wall_quick: 70.0,
        wall_thorough: 1500.0,
        shrink_plan: false,
        narrow: Some(Box::new(|_case, _f, res| res.derived.as_ref().map(|c| (**c).clone()))),
        exhaustive: false,
        extra: json!({"engine": "corrupt: image of a recorded base run, one reopen simulation (real DB + background thread on SimFs) per mutation; replay files embed the mutated image"}),
    }
}

fn lock_spec() -> CheckSpec {
    CheckSpec {
        prop: "C17",
        level: "exploration",
        rule: "one evaluation = one simulated run in which 2-4 tasks execute seeded programs over {open(create_if_missing), hold (re-reading the own key through the handle), close, destroy_database} on ONE path of the real disk filesystem (TmpFileSystem = fs_disk.rs with flock) wrapped in a delegate that makes every filesystem call a scheduling point, so tasks interleave between the individual syscalls of DB::open, Drop and destroy_database; a final phase lets k tasks race open after every handle was closed and hold their handle until a barrier. Oracle: an open that returns Ok while another task held the database during the whole call is a violation; destroy_database returning Ok while a task held the database during the whole call is a violation; an owner's writes/reads must keep working (the running instance is not disturbed); in the final phase exactly one open succeeds. Non-trivial = at least one open or destroy was refused because of an owner; distinct = distinct (opens ok, refused, destroys refused, ok, final winners) vectors x probes x context-switch bucket.",
        assumptions: vec![
            "the only check that touches the real filesystem: flock semantics are those of the sandbox kernel (two descriptors of one process conflict)".into(),
            "tasks interleave at filesystem calls, lock/condvar/channel operations and explicit yields; file-handle reads and writes are not scheduling points here".into(),
        ],
        expected_probes: &["open_refused_while_owned", "destroy_refused_while_owned", "destroy_succeeded_when_closed", "freeze_fired"],
        gen: Box::new(|rs, _i, tier| {
            let mut rng = Rng::new(rs);
            let lp = crate::lockrace::gen_plan(&mut rng.fork("lock"), tier == Tier::Thorough);
            let mut knobs = crate::plan::Knobs::gen(&mut rng.fork("knobs"));
            knobs.max_memtable_size = *rng.fork("mem").pick(&[700usize, 1024, 2048, 4096]);
            knobs.max_file_size = 1024;
            let sched = gen_strategy(&mut rng.fork("sched"), 900, true);
            Case {
                engine: Engine::LockRace,
                run_seed: rs,
                plan: crate::plan::Plan { keys: vec![], opens: vec![knobs], ops: vec![], clients: vec![], tail: vec![] },
                sched,
                schedule: None,
                fault: None,
                params: BTreeMap::new(),
                image: None,
                max_steps: Some(500_000),
                log_plan: None,
                corrupt: None,
                lock_plan: Some(lp),
            }
        }),
        exec: Box::new(exec_case),
        evals: Box::new(|_| 1),
        runs_quick: 16_000,
        runs_thorough: 600_000,
        wall_quick: 60.0,
        wall_thorough: 1200.0,
        shrink_plan: false,
        narrow: None,
        exhaustive: false,
        extra: json!({"engine": "lockrace: real DB + background threads on the real disk filesystem (temp dir), every filesystem call a scheduling point"}),
    }
}

fn crash_case(run_seed: u64, tier: Tier, torn: bool) -> Case {
    let mut rng = Rng::new(run_seed);
    let size = if tier == Tier::Quick { BASE_QUICK } else { BASE_THOROUGH };
    let plan = gen_hist(&mut rng, Profile::Base, size);
    let mut plan = plan;
    if rng.fork("boundary").chance(1, 8) {
        crate::gen::boundary_prefix(&mut rng.fork("boundary-shape"), &mut plan);
    }
    let mut grng = rng.fork("giant-batch");
    if std::env::var_os("RAINSIM_GIANT_BATCH").is_some() && grng.chance(1, 60) {
        crate::gen::giant_batch(&mut grng, &mut plan, false);
    }
    let mut crng = rng.fork("clients");
    if !torn && crng.chance(1, 4) {
        // 2-3 concurrent writers on disjoint key sets after the single-client part
        let nc = crng.range(2, 3) as usize;
        while plan.keys.len() < nc {
            plan.keys.push(format!("extra-{}", plan.keys.len()).into_bytes());
        }
        let mut tag = 200_000u32;
        for c in 0..nc {
            let mine: Vec<usize> = (0..plan.keys.len()).filter(|k| k % nc == c).collect();
            let n = crng.range(3, 14) as usize;
            let mut ops = vec![];
            for _ in 0..n {
                let k = *crng.pick(&mine);
                tag += 1;
                match crng.weighted(&[60, 12, 28]) {
                    0 => ops.push(Op::Put { k, v: crate::plan::Val { tag, len: 12 + crng.below(300) as u32 } }),
                    1 => ops.push(Op::Delete { k }),
                    _ => {
                        let k2 = *crng.pick(&mine);
                        tag += 1;
                        ops.push(Op::Batch { items: vec![(k, Some(crate::plan::Val { tag: tag - 1, len: 30 })), (k2, Some(crate::plan::Val { tag, len: 30 }))] });
                    }
                }
            }
            plan.clients.push(ops);
        }
    }
    let est = (plan.op_count() as u32) * 60;
    let mut srng = rng.fork("sched");
    // base runs mostly use low-preemption schedules: the fault space here is the crash point
    let sched = if srng.chance(1, 2) { SchedSpec { strategy: Strategy::Sticky { q_permille: 950 }, seed: srng.next_u64() } } else { gen_strategy(&mut srng, est, false) };
    let mut params = BTreeMap::new();
    if torn {
        params.insert("torn".to_string(), 1);
    }
    // every recovery of a crash image spawns tasks inside the base run's execution, and shuttle keeps
    // a finished task's stack mapped until the execution ends: bound the images per base run so that
    // 16 workers stay far below vm.max_map_count (thorough goes deeper with more base runs instead)
    params.insert("max_points".to_string(), if tier == Tier::Quick { 48 } else if torn { 200 } else { 600 });
    params.insert("clean_close".to_string(), (rng.fork("close").below(2)) as i64);
    Case { engine: Engine::Crash, run_seed, plan, sched, schedule: None, fault: None, params, image: None, max_steps: Some(20_000_000), log_plan: None, lock_plan: None, corrupt: None }
}

fn crash_spec(prop: &'static str, torn: bool, rule: &'static str, probes: &'static [&'static str]) -> CheckSpec {
    CheckSpec {
        prop,
        level: "fault_enumeration",
        rule,
        assumptions: vec![
            "crash model = process death between two filesystem operations: the durable state is exactly the effect of a prefix of the mutating-operation log (RainDB never calls fsync, and no listed property requires power-loss durability)".into(),
            "fault positions are enumerated per explored base execution (all prefixes in the thorough tier; a biased sample of 48 in the quick tier); base executions themselves are sampled by seed".into(),
            "the base run has one writer, plus in a quarter of the C02 base runs a final phase of 2-3 concurrent writers on disjoint key sets (several batches in flight at a crash point, possibly merged into one WAL record by group commit); every subset of the in-flight batches, each as a whole, is accepted".into(),
            "SimFs models POSIX file semantics as used by fs_disk.rs".into(),
        ],
        expected_probes: probes,
        gen: Box::new(move |rs, _i, tier| crash_case(rs, tier, torn)),
        exec: Box::new(exec_case),
        evals: Box::new(|r| r.stats.extra.get("crash_points_checked").copied().unwrap_or(0)),
        runs_quick: if torn { 250 } else { 900 },
        runs_thorough: 40_000,
        wall_quick: 70.0,
        wall_thorough: 1500.0,
        shrink_plan: false,
        narrow: Some(Box::new(|case, f, _res| {
            let p = f.op_index?;
            let mut c = case.clone();
            c.params.insert("crash_at".to_string(), p as i64);
            Some(c)
        })),
        exhaustive: false,
        extra: json!({"engine": "crash: recorded single-writer base run (real DB + background thread on SimFs), then one recovery simulation per crash point on the materialised image"}),
    }
}

fn log_spec() -> CheckSpec {
    CheckSpec {
        prop: "C12",
        level: "fault_enumeration",
        rule: "one evaluation = one read of a log file image through LogReader: the complete file, or the file cut off at one byte offset. Logs are written through LogWriter on SimFs by 1-3 successive writers (clean re-opening in append mode, or a writer that stops between two filesystem writes of a fragmented record followed by a new writer appending more records). The first 3 x |grid| runs enumerate a seed-independent boundary grid completely: start offset in the block in {0, 32754..32767} x record length in {0, 1, 32761, 32768, 65528, 65536, 65544, 100000} plus every length leaving 0..8 bytes in the block, each as (single writer | clean re-open before the record | writer dies inside the record); remaining runs draw record-length sequences by seed. Truncation offsets: every byte for logs < 1.5 KB, otherwise every byte within +-9 of each fragment/record/block boundary plus sampled offsets. Oracle: the reader returns exactly the complete records, byte for byte and in order (records that end at or before the cut; all records finished before a writer stopped plus every record appended by later writers), never anything else. distinct_nontrivial = distinct (writers, records, blocks, tail position, unfinished-record) shapes.",
        assumptions: vec![
            "a writer 'stopping between two fragments' is modelled by truncating the file at the boundary between two of its filesystem writes (one write per fragment, one per zero trailer); a fragment torn in the middle followed by appends is C16's case".into(),
            "LogWriter/LogReader run single-threaded; the simulation content is the storage faults and writer restarts, not scheduling".into(),
        ],
        expected_probes: &["record_with_first_middle_last", "writer_died_between_fragments", "writer_reopened_in_append_mode", "truncation_enumerated"],
        gen: Box::new(|rs, i, tier| {
            let g = crate::logsim::grid().len() * 3;
            let plan = if (i as usize) < g { crate::logsim::grid_plan(i as usize) } else { crate::logsim::random_plan(&mut Rng::new(rs), tier == Tier::Thorough) };
            Case {
                engine: Engine::LogSim,
                run_seed: rs,
                plan: crate::plan::Plan { keys: vec![], opens: vec![], ops: vec![], clients: vec![], tail: vec![] },
                sched: SchedSpec { strategy: Strategy::RoundRobin, seed: rs },
                schedule: None,
                fault: None,
                params: BTreeMap::new(),
                image: None,
                max_steps: Some(50_000_000),
                log_plan: Some(plan),
                corrupt: None,
                lock_plan: None,
            }
        }),
        exec: Box::new(exec_case),
        evals: Box::new(|r| r.stats.extra.get("log_evaluations").copied().unwrap_or(0)),
        runs_quick: 6000,
        runs_thorough: 300_000,
        wall_quick: 60.0,
        wall_thorough: 1200.0,
        shrink_plan: false,
        narrow: None,
        exhaustive: false,
        extra: json!({"engine": "logsim: real LogWriter/LogReader (via verif_api) on SimFs", "grid_cells": crate::logsim::grid().len(), "grid_runs": crate::logsim::grid().len() * 3, "exhaustive_note": "the boundary grid x {single writer, clean re-open, writer death} is enumerated completely whenever evaluations cover at least grid_runs runs (always true for both tiers); record-length sequences beyond the grid are sampled"}),
    }
}

/// Replace the generator of a spec by a mix of variants selected by run index.
fn mixed(mut spec: CheckSpec, variants: Vec<(u32, Variant)>) -> CheckSpec {
    let total: u32 = variants.iter().map(|v| v.0).sum();
    spec.gen = Box::new(move |rs, i, tier| {
        let mut x = (crate::rng::mix2(rs, 0x5eed) % total as u64) as u32;
        let _ = i;
        for (w, v) in &variants {
            if x < *w {
                return match v {
                    Variant::Hist(p) => hist_case(rs, tier, *p),
                    Variant::Conc(p) => conc_case(rs, tier, *p),
                    Variant::IoFault => {
                        // C09 under transient faults ("as long as the filesystem makes progress"):
                        // hangs and background panics after a fault that is over keep their C09 tag
                        let mut c = iofault_case(rs, tier);
                        c.params.insert("max_points".to_string(), if tier == Tier::Quick { 16 } else { 32 });
                        c
                    }
                    Variant::Crash => {
                        let mut c = crash_case(rs, tier, false);
                        // inside a mixed check a crash run is one of many: keep it short
                        c.params.insert("max_points".to_string(), if tier == Tier::Quick { 24 } else { 400 });
                        c
                    }
                };
            }
            x -= *w;
        }
        unreachable!()
    });
    spec.evals = Box::new(|r| r.stats.extra.get("crash_points_checked").copied().unwrap_or(1).max(1));
    spec.narrow = Some(Box::new(|case, f, _res| {
        if case.engine == Engine::IoFault {
            // the single faulted run that showed the finding (its own schedule gets recorded)
            let mut c = case.clone();
            c.fault = Some(f.fault.clone()?);
            return Some(c);
        }
        if case.engine != Engine::Crash {
            return None;
        }
        let p = f.op_index?;
        let mut c = case.clone();
        c.params.insert("crash_at".to_string(), p as i64);
        Some(c)
    }));
    spec.extra = json!({"engines": "mix of hist (1 client + background thread) and conc (2-5 clients + background thread) runs on SimFs under SimScheduler; see rule"});
    spec
}

#[derive(Clone, Copy)]
enum Variant {
    Hist(Profile),
    Conc(ConcProfile),
    /// recorded base run + recovery simulation per crash point (C10/C11 on recovered images)
    Crash,
    /// fault-free base run + one faulted re-execution per (filesystem call, mode)
    IoFault,
}

pub fn spec_for(prop: &str) -> Option<CheckSpec> {
    Some(match prop {
        "C01" => hist_spec(
            "C01",
            Profile::C01,
            "one evaluation = one simulated single-client history (15-140 ops quick, up to 320 thorough) over {put, delete, batch, get, compact_range, flush, flush-by-fill bursts, quiesce, close+reopen with fresh options} with per-run knobs (memtable 512 B-64 KiB, file 512 B-64 KiB, block 16 B-4 KiB, reuse_log_files, bloom bits, cache capacities, level size base), key-shape menu and value-size menu; every get, every post-reopen and final full scan + get of every universe key is compared with a BTreeMap model; the scheduler decides when the background thread flushes/compacts relative to client operations. distinct_nontrivial counts distinct coverage signatures (set of files-per-level vectors seen at quiescence, probes hit, context-switch bucket) among runs in which at least one table file was written and read back.",
            &["l0_ge4_over_l1_ge2", "multi_file_level_ge2"],
            (40_000, 1_500_000),
        ),
        "C03" => mixed(hist_spec("C03", Profile::C03, "60% hist / 40% conc. conc clause (additionally: what a view shows per key must be linearizable as a read inside the call that created the view; key sets with a single writer must show a state that exists between two of its writes; cursor programs of 6-20 random moves run on live iterators against their own first scan): reader tasks take a snapshot or iterator, dump it immediately and dump it again later (and compare get with scan at the snapshot) while writer tasks keep rotating memtables, flushing and compacting; table-cache capacity 2 in most runs forces a parked reader to re-open files; first and later dumps must be equal and no read may fail. hist clause: one evaluation = one simulated single-client history in which snapshots and iterators are taken at arbitrary points, several live at once, and are re-read (get of every universe key, full forward and backward scan, get/scan agreement) after later write bursts, flushes, manual and background compactions; oracle = frozen BTreeMap clone taken at creation. distinct_nontrivial = distinct coverage signatures among runs where tables were written and read back.", &["l0_ge4_over_l1_ge2"], (40_000, 1_500_000)), vec![(60, Variant::Hist(Profile::C03)), (40, Variant::Conc(ConcProfile::C03))]),
        "C04" => hist_spec("C04", Profile::C04, "one evaluation = one simulated history that builds an LSM shape under scheduler control while up to 3 iterators (latest or at a snapshot) are driven by random cursor programs over {seek(universe key or neighbour), seek_to_first, seek_to_last, next, prev} with direction reversals; after every step is_valid()/current() must equal a model cursor over the sorted visible pairs; iterators stay open across later writes, flushes and compactions. The cursor program is input generation; the simulation content is the layout under the iterator (produced by the background thread under scheduler control) and iterators outliving compaction and file deletion.", &["l0_ge4_over_l1_ge2"], (40_000, 1_500_000)),
        "C07" => mixed(hist_spec("C07", Profile::C07, "70% hist / 30% conc. conc clause: after concurrent writers finished (no quiesce), 1-2 reader tasks dump the database forwards/backwards repeatedly while the main task runs flush / compact_range and the background thread compacts; every dump must equal the state captured before. hist clause: one evaluation = one simulated history in which every flush, compact_range(range incl. open ends, empty, reversed) and quiesce is bracketed by full dumps at the latest state and at each live snapshot; dump_before == dump_after (and == model) is required. distinct_nontrivial = distinct coverage signatures among runs where tables were written and read back.", &["l0_ge4_over_l1_ge2", "multi_file_level_ge2"], (40_000, 1_500_000)), vec![(70, Variant::Hist(Profile::C07)), (30, Variant::Conc(ConcProfile::C07))]),
        "C10" => mixed(hist_spec("C10", Profile::C10, "70% hist / 10% conc / 20% crash-image runs (the structural part - unique numbers, ordered bounds, sorted and disjoint levels - is also checked at arbitrary moments while writers and the background thread are active: every 8th operation of a history and at every iterator creation of a concurrent run; one evaluation per crash point: the shape oracle runs on every recovered image right after open). hist clause: one evaluation = one simulated history; after the first open, every reopen, every CheckAll and at the end the database is quiesced and the structured shape (verif_shape) is checked: per level >= 1 files sorted and pairwise disjoint in internal-key order, smallest <= largest, no file number twice, and every file's bounds equal its first/last stored entry (table read back through verif_api::table_entries); cross-checked against NumFilesAtLevel and SSTables descriptors.", &["l0_ge4_over_l1_ge2", "multi_file_level_ge2"], (20_000, 1_500_000)), vec![(70, Variant::Hist(Profile::C10)), (10, Variant::Conc(ConcProfile::C11)), (20, Variant::Crash)]),
        "C11" => mixed(hist_spec("C11", Profile::C11, "42% hist / 28% conc / 20% crash-image runs / 10% fault-enumeration runs (after a transient fault that left no recorded error - a failed read - two forced flushes and a quiesce later the directory must hold exactly the needed files). Crash-image runs (one evaluation per crash point: the directory of every recovered image must equal the needed set right after open - orphan tables, half-written temp files and superseded manifests are reclaimed - and recovery must never fail with missing files). conc clause: reader tasks hold iterators (pinned table set known from verif_shape before/after creation; unknown pins counted as pin_unknown) while writers flush and compact with table-cache capacity 2; a remove of a pinned table in the SimFs log during the iterator's lifetime, or any read failing with NotFound, is a violation. hist clause: one evaluation = one simulated history; the directory listing of SimFs is compared with {CURRENT, LOCK, current manifest, active WAL, tables of the current version} right after every successful open and at quiescent points where no iterator is alive and one reclamation opportunity (flush/compaction end) has passed since the last iterator release; files pending between a release and the next opportunity are counted as lazy_pending_files, not violations; any read failing with NotFound is a violation.", &["l0_ge4_over_l1_ge2"], (20_000, 1_500_000)), vec![(42, Variant::Hist(Profile::C11)), (28, Variant::Conc(ConcProfile::C11)), (20, Variant::Crash), (10, Variant::IoFault)]),
        "C09" => mixed(
            hist_spec("C09", Profile::C09, "one evaluation = one simulated run: 5% fault-enumeration runs of the C08 engine (hangs and background panics after a transient or partial-write fault - the filesystem keeps making progress - count; those under a sticky fault do not), the rest on a fault-free filesystem: 25% single-client histories incl. every descriptor kind, 30% concurrent runs with writers, readers, compact_range, every descriptor kind (incl. Stats), snapshot take/release, flush, and close while background work may still be in flight, 40% the concurrent workloads of C05/C03/C11/C06. Violations: shuttle reports a deadlock (all live tasks blocked) or a re-entrant lock acquisition; any task of an open database panics (the orphan worker of a failed open is exempt); a background error is recorded; a run exceeds 2M scheduler steps and still does under a fair round-robin schedule (otherwise counted as unfair_schedule_timeouts).", &["freeze_fired"], (30_000, 2_000_000)),
            vec![(25, Variant::Hist(Profile::C09)), (30, Variant::Conc(ConcProfile::C09)), (5, Variant::IoFault), (5, Variant::Conc(ConcProfile::C05Big)), (10, Variant::Conc(ConcProfile::C05)), (10, Variant::Conc(ConcProfile::C03)), (10, Variant::Conc(ConcProfile::C11)), (10, Variant::Conc(ConcProfile::C06))],
        ),
        "C05" => mixed(conc_spec("C05", ConcProfile::C05, "85% standard / 15% big-write runs (3-5 clients x 2-6 operations with 70-300 KB values so that queued writers hit the group-commit size limits). Standard: one evaluation = one simulated concurrent run: 2-5 client tasks x 5-60 operations over 2-8 keys (unique value tags) with 512 B-4 KiB memtables so that rotation, flush and compaction run continuously; schedulers Random / Sticky / PCT(depth 1-4) / Freeze (parks a task at an unlocked_fair exit, filesystem call or hook until the others are blocked or a step budget expires). The invoke/return history (global event sequence numbers) is checked per key against a register model by a memoised WGL search, with the final quiesced state as a last read; phantom reads, reads from the future and write errors are violations; what a snapshot or iterator shows for a key is added as a read whose interval is the call that created the view (gets and writes alone are checked first). Histories above the checker budget are counted as unchecked, never as violations. A scheduling point follows every mutex release; a third of the runs carry alignment directives (an operation starts exactly when another task has just released the database mutex, sits in an unlocked section, a filesystem call or a hook).", &["freeze_fired", "group_commit_merged_writers"], (30_000, 2_000_000)), vec![(85, Variant::Conc(ConcProfile::C05)), (15, Variant::Conc(ConcProfile::C05Big))]),
        "C06" => conc_spec("C06", ConcProfile::C06, "one evaluation = one simulated concurrent run in which 1-3 writer tasks each own a row group of 2-8 keys and repeatedly apply one batch writing the same fresh tag to every key of the group (sometimes deleting all, sometimes padded beyond the memtable budget) while 1-2 reader tasks take snapshots / iterators and read whole groups; H4 puts a scheduling point after every single memtable insert, SimFs before and after the WAL append. Oracle: in every snapshot-consistent read all keys of a group carry the same tag; in a third of the plans a writer also overwrites or deletes part of its group, and then (as for every key set with a single writer) the read must show a state that exists between two of that writer's batches; per key, the value a view shows must be linearizable as a read inside the call that created the view.", &["freeze_fired"], (30_000, 2_000_000)),
        "C12" => log_spec(),
        "C08" => iofault_spec(),
        "C15" => corrupt_spec(),
        "C17" => lock_spec(),

        "C02" => crash_spec(
            "C02",
            false,
            "one evaluation = one crash point: a prefix of the totally ordered log of mutating filesystem operations (create/truncate, write, rename, remove, mkdir) of a recorded base run (4-60 ops quick, -150 thorough: puts, deletes, batches, flushes, compact_range, clean reopen with new options; closed cleanly or left open; a quarter of the base runs end with 2-3 concurrent writers on disjoint keys). For each point (all points of a base run up to 48 quick / 600 thorough, else the points next to create/rename/remove/truncate first and a seeded sample of the rest) the image is materialised and a recovery simulation runs: DB::open (reuse_log_files and sizes drawn per point) must succeed; full scan + get of every key must equal the model of all writes returned before the crash point, plus optionally - as a whole - the batch that was invoked but not returned; then 2-5 further writes, clean close, reopen (possibly flipped reuse_log_files) and the scan must equal model + new writes; with probability 1/6 the recovery run itself is crashed at a seeded prefix of its own log and checked recursively (depth <= 2). distinct_nontrivial = distinct coverage signatures of base runs (LSM shapes of recovered images, set of (operation kind, file class) pairs preceding the crash points).",
            &["crash@write:wal", "crash@write:table", "crash@write:manifest", "crash@rename:current", "crash@create:temp", "crash@remove:wal", "crash@remove:table", "crash_inside_recovery"],
        ),
        "C16" => crash_spec(
            "C16",
            true,
            "one evaluation = one torn write: for a write operation of a recorded base run (every write of non-table files first, sampled table writes; <=48 writes per base run quick, <=200 thorough) the image is the log prefix before it plus 1 byte / half / all-but-one / two seeded lengths of its payload. Recovery simulation as for C02 with both reuse_log_files values, 3-11 further acknowledged writes of 10 B-40 KB (some stay in the torn tail's 32 KiB block, some cross it), clean close, reopen: the first open must succeed and show everything acknowledged before the torn write (the torn batch absent or whole); after the second open every write acknowledged after recovery must be present.",
            &["crash@torn:write:wal", "crash@torn:write:manifest", "crash@torn:write:table", "crash@torn:write:temp"],
        ),
        _ => return None,
    })
}
