//! One `CheckSpec` per claimed property.

use crate::batch::{CheckSpec, Tier};
use crate::exec::{run_case, Case, CaseResult, Engine};
use crate::gen::{gen_hist, Profile, QUICK, THOROUGH};
use crate::rng::Rng;
use crate::sched::{SchedSpec, Strategy};
use serde_json::json;
use std::collections::BTreeMap;

pub fn gen_strategy(rng: &mut Rng, est_steps: u32, concurrent: bool) -> SchedSpec {
    let seed = rng.next_u64();
    let est = ((est_steps as f64) * (0.2 + rng.f64() * 1.3)) as u32 + 10;
    let w: [u32; 4] = if concurrent { [20, 20, 30, 30] } else { [30, 30, 15, 25] };
    let strategy = match rng.weighted(&w) {
        0 => Strategy::Random,
        1 => Strategy::Sticky { q_permille: *rng.pick(&[500u32, 800, 950, 990]) },
        2 => Strategy::Pct { depth: 1 + rng.below(4) as u32, est_steps: est },
        _ => Strategy::Freeze { k: 1 + rng.below(4) as u32, est_steps: est, budget: *rng.pick(&[200u32, 2000, 20000, 200000]), sticky_permille: *rng.pick(&[0u32, 500, 900]) },
    };
    SchedSpec { strategy, seed }
}

pub fn exec_case(case: &Case) -> CaseResult {
    match case.engine {
        Engine::Hist => run_case(case, crate::hist::body),
        _ => unimplemented!("engine {:?}", case.engine),
    }
}

fn hist_case(run_seed: u64, tier: Tier, profile: Profile) -> Case {
    let mut rng = Rng::new(run_seed);
    let size = if tier == Tier::Quick { QUICK } else { THOROUGH };
    let plan = gen_hist(&mut rng, profile, size);
    let est = (plan.op_count() as u32) * 60;
    let sched = gen_strategy(&mut rng.fork("sched"), est, false);
    Case { engine: Engine::Hist, run_seed, plan, sched, schedule: None, fault: None, params: BTreeMap::new(), image: None, max_steps: None }
}

const HIST_ASSUMPTIONS: &[&str] = &[
    "sampling, not proof: a clean batch is evidence over the explored runs only",
    "tasks are atomic between scheduling points (lock/condvar/channel operations, unlocked_fair entry/exit, SimFs calls, H4 hooks); intra-skiplist interleavings and weak-memory effects are not explored",
    "the parking_lot shim provides mutual exclusion and condvar wake-ups and nothing stronger than parking_lot",
    "SimFs models POSIX file semantics as used by fs_disk.rs; no short reads/writes, no EINTR",
];

fn hist_spec(prop: &'static str, profile: Profile, rule: &'static str, probes: &'static [&'static str], runs: (u64, u64)) -> CheckSpec {
    CheckSpec {
        prop,
        level: "exploration",
        rule,
        assumptions: HIST_ASSUMPTIONS.iter().map(|s| s.to_string()).collect(),
        expected_probes: probes,
        gen: Box::new(move |rs, _i, tier| hist_case(rs, tier, profile)),
        exec: Box::new(exec_case),
        evals: Box::new(|_| 1),
        runs_quick: runs.0,
        runs_thorough: runs.1,
        wall_quick: 60.0,
        wall_thorough: 1200.0,
        shrink_plan: true,
        exhaustive: false,
        extra: json!({"engine": "hist: 1 client task + the real background compaction thread on SimFs under SimScheduler"}),
    }
}

pub fn spec_for(prop: &str) -> Option<CheckSpec> {
    Some(match prop {
        "C01" => hist_spec(
            "C01",
            Profile::C01,
            "one evaluation = one simulated single-client history (15-140 ops quick, up to 320 thorough) over {put, delete, batch, get, compact_range, flush, flush-by-fill bursts, quiesce, close+reopen with fresh options} with per-run knobs (memtable 512 B-64 KiB, file 512 B-64 KiB, block 16 B-4 KiB, reuse_log_files, bloom bits, cache capacities, level size base), key-shape menu and value-size menu; every get, every post-reopen and final full scan + get of every universe key is compared with a BTreeMap model; the scheduler decides when the background thread flushes/compacts relative to client operations. distinct_nontrivial counts distinct coverage signatures (set of files-per-level vectors seen at quiescence, probes hit, context-switch bucket) among runs in which at least one table file was written and read back.",
            &["l0_ge4_over_l1_ge2", "multi_file_level_ge2"],
            (6000, 400_000),
        ),
        "C03" => hist_spec("C03", Profile::C03, "one evaluation = one simulated single-client history in which snapshots and iterators are taken at arbitrary points, several live at once, and are re-read (get of every universe key, full forward and backward scan, get/scan agreement) after later write bursts, flushes, manual and background compactions; oracle = frozen BTreeMap clone taken at creation. distinct_nontrivial = distinct coverage signatures among runs where tables were written and read back.", &["l0_ge4_over_l1_ge2"], (6000, 400_000)),
        "C04" => hist_spec("C04", Profile::C04, "one evaluation = one simulated history that builds an LSM shape under scheduler control while up to 3 iterators (latest or at a snapshot) are driven by random cursor programs over {seek(universe key or neighbour), seek_to_first, seek_to_last, next, prev} with direction reversals; after every step is_valid()/current() must equal a model cursor over the sorted visible pairs; iterators stay open across later writes, flushes and compactions. The cursor program is input generation; the simulation content is the layout under the iterator (produced by the background thread under scheduler control) and iterators outliving compaction and file deletion.", &["l0_ge4_over_l1_ge2"], (6000, 400_000)),
        "C07" => hist_spec("C07", Profile::C07, "one evaluation = one simulated history in which every flush, compact_range(range incl. open ends, empty, reversed) and quiesce is bracketed by full dumps at the latest state and at each live snapshot; dump_before == dump_after (and == model) is required. distinct_nontrivial = distinct coverage signatures among runs where tables were written and read back.", &["l0_ge4_over_l1_ge2", "multi_file_level_ge2"], (6000, 400_000)),
        "C10" => hist_spec("C10", Profile::C10, "one evaluation = one simulated history; after the first open, every reopen, every CheckAll and at the end the database is quiesced and the structured shape (verif_shape) is checked: per level >= 1 files sorted and pairwise disjoint in internal-key order, smallest <= largest, no file number twice, and every file's bounds equal its first/last stored entry (table read back through verif_api::table_entries); cross-checked against NumFilesAtLevel and SSTables descriptors.", &["l0_ge4_over_l1_ge2", "multi_file_level_ge2"], (6000, 400_000)),
        "C11" => hist_spec("C11", Profile::C11, "one evaluation = one simulated history; the directory listing of SimFs is compared with {CURRENT, LOCK, current manifest, active WAL, tables of the current version} right after every successful open and at quiescent points where no iterator is alive and one reclamation opportunity (flush/compaction end) has passed since the last iterator release; files pending between a release and the next opportunity are counted as lazy_pending_files, not violations; any read failing with NotFound is a violation.", &["l0_ge4_over_l1_ge2"], (6000, 400_000)),
        "C09" => hist_spec("C09", Profile::C09, "preliminary: single-client histories incl. every descriptor kind; any panic of a RainDB thread or client call, deadlock, re-entrant lock, or background error in a fault-free run", &[], (6000, 400_000)),
        _ => return None,
    })
}
