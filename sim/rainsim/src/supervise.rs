//! Process-level fault isolation for `rainsim check`.
//!
//! All runs of a batch share one process. Code under test that *aborts* (an unsafe-precondition
//! check, a panic while panicking, a stack overflow, an allocation failure) takes the whole batch
//! with it: no finding, no evidence, no VIOLATION line. The check therefore runs as a child of a
//! small supervisor. Every worker thread of the child notes the run it is about to execute in a
//! file of its own; if the child is killed by a signal the supervisor re-executes the runs that were
//! in flight one by one, each in its own process, to find the one that kills the process. Such a run
//! violates C09 (the call never returns, the whole process - background worker included - is gone):
//! the C09 check reports it with a replay file (replayed in a child process as well); any other
//! check restarts its batch without that run, exactly as for runs that never yield (watchdog.rs).

use crate::batch::{run_seed, Tier};
use crate::report::{verif_root, ReplayFile};
use crate::world::Finding;
use std::path::PathBuf;

pub const ABORT_CLASS: &str = "process-abort";
const MAX_SKIPS: usize = 4;

pub fn inflight_dir() -> Option<PathBuf> {
    std::env::var_os("RAINSIM_INFLIGHT_DIR").map(PathBuf::from)
}

/// Per-worker note of the run in flight (called by the batch runner in the supervised child).
pub struct InflightNote {
    file: Option<std::fs::File>,
}

impl InflightNote {
    pub fn new(worker: usize) -> InflightNote {
        let file = inflight_dir().and_then(|d| std::fs::OpenOptions::new().create(true).write(true).truncate(true).open(d.join(format!("w{}", worker))).ok());
        InflightNote { file }
    }

    pub fn set(&mut self, index: u64, seed: u64) {
        use std::io::{Seek, SeekFrom, Write};
        if let Some(f) = self.file.as_mut() {
            let _ = f.seek(SeekFrom::Start(0));
            // fixed width, so that a shorter later note never leaves a tail of an older one
            let _ = f.write_all(format!("{:020} {:016x}\n", index, seed).as_bytes());
        }
    }

    pub fn clear(&mut self) {
        use std::io::{Seek, SeekFrom, Write};
        if let Some(f) = self.file.as_mut() {
            let _ = f.seek(SeekFrom::Start(0));
            let _ = f.write_all(format!("{:<37}\n", "idle").as_bytes());
        }
    }
}

fn read_inflight(dir: &std::path::Path) -> Vec<(u64, u64)> {
    let mut out = vec![];
    if let Ok(rd) = std::fs::read_dir(dir) {
        for e in rd.flatten() {
            if let Ok(s) = std::fs::read_to_string(e.path()) {
                let mut it = s.split_whitespace();
                if let (Some(a), Some(b)) = (it.next(), it.next()) {
                    if let (Ok(i), Ok(seed)) = (a.parse::<u64>(), u64::from_str_radix(b, 16)) {
                        out.push((i, seed));
                    }
                }
            }
        }
    }
    out.sort();
    out
}

fn describe_status(st: &std::process::ExitStatus) -> String {
    use std::os::unix::process::ExitStatusExt;
    match (st.code(), st.signal()) {
        (Some(c), _) => format!("exit code {}", c),
        (None, Some(s)) => format!("killed by signal {}", s),
        _ => "unknown status".into(),
    }
}

/// Entry point of `rainsim check` (unless already supervised). Never returns.
pub fn supervise_check(prop: &str, tier: Tier) -> ! {
    use std::io::Write;
    let exe = std::env::current_exe().expect("current_exe");
    let dir = verif_root().join("sim").join("scratch").join(format!("inflight-{}", std::process::id()));
    let mut skip: Vec<u64> = crate::watchdog::skipped_seeds();
    let mut unexplained_deaths = 0u32;
    loop {
        let _ = std::fs::remove_dir_all(&dir);
        let _ = std::fs::create_dir_all(&dir);
        let list = skip.iter().map(|x| format!("{:016x}", x)).collect::<Vec<_>>().join(",");
        let status = std::process::Command::new(&exe).arg("check").arg(prop).arg(tier.name()).env("RAINSIM_SUPERVISED", "1").env("RAINSIM_INFLIGHT_DIR", &dir).env("RAINSIM_SKIP_SEEDS", &list).status();
        let status = match status {
            Ok(s) => s,
            Err(e) => {
                eprintln!("HARNESS ERROR: cannot start the check process: {}", e);
                std::process::exit(2);
            }
        };
        if let Some(code) = status.code() {
            let _ = std::fs::remove_dir_all(&dir);
            std::process::exit(code);
        }
        // the batch process was killed: find the run(s) that kill a process
        let how = describe_status(&status);
        let candidates = read_inflight(&dir);
        let _ = std::fs::remove_dir_all(&dir);
        let Some(spec) = crate::checks::spec_for(prop) else { std::process::exit(2) };
        let mut culprits: Vec<(u64, u64, crate::exec::Case, String)> = vec![];
        for (i, seed) in &candidates {
            if *seed != run_seed(crate::batch::env_seed(), spec.prop, *i) {
                continue;
            }
            let case = (spec.gen)(*seed, *i, tier);
            let (res, _, _, st) = crate::checks::run_child(&case);
            if res.is_none() {
                culprits.push((*i, *seed, case, st));
            }
        }
        if culprits.is_empty() {
            // not reproducible in isolation (the death depends on the process's history, e.g. heap
            // corruption by the code under test): set all the runs that were in flight aside once
            // and go on; if the batch keeps dying, give up
            if unexplained_deaths >= 2 || candidates.is_empty() {
                eprintln!("HARNESS ERROR: the {} check process died ({}) {} times and none of the runs that were in flight dies when executed alone (the code under test corrupts its process; bin/check C09 may show how)", prop, how, unexplained_deaths + 1);
                std::process::exit(2);
            }
            unexplained_deaths += 1;
            println!("note: the {} check process died ({}); none of the {} runs in flight dies when executed alone - restarting the batch without them", prop, how, candidates.len());
            for (_, seed) in &candidates {
                if !skip.contains(seed) {
                    skip.push(*seed);
                }
            }
            let _ = std::io::stdout().flush();
            continue;
        }
        if prop == "C09" {
            let (_, seed, case, st) = &culprits[0];
            let f = Finding { properties: vec!["C09".into()], class: ABORT_CLASS.into(), signature: ABORT_CLASS.into(), detail: format!("executing this run kills the whole process ({}): the operation in progress never returns and the background worker is gone with it", st), seq: 0, op_index: None, fault: None };
            println!("violation candidate (run_seed {:016x}): [{}] {}", seed, f.signature, f.detail);
            let rdir = verif_root().join("replays");
            let _ = std::fs::create_dir_all(&rdir);
            let path = rdir.join(format!("{}-{:016x}.json", prop, seed));
            let rf = ReplayFile { property: prop.to_string(), signature: f.signature.clone(), class: f.class.clone(), detail: f.detail.clone(), case: case.clone(), trace: vec![], digest: 0, shrink: Some("not shrunk: the run kills its process".into()) };
            std::fs::write(&path, serde_json::to_string_pretty(&rf).unwrap()).expect("write replay file");
            crate::batch::write_stuck_evidence(prop, &f.detail);
            println!("  what: {}", f.detail);
            let _ = std::io::stdout().flush();
            use std::os::unix::process::CommandExt;
            let err = std::process::Command::new(&exe).arg("verify-replay").arg(&path).exec();
            eprintln!("HARNESS ERROR: cannot re-execute for replay verification: {}", err);
            std::process::exit(2);
        }
        for (i, seed, _, st) in &culprits {
            println!("note: run {} ({:016x}) kills the whole process ({}). That violates C09, not {}; restarting the batch without it", i, seed, st, prop);
            if !skip.contains(seed) {
                skip.push(*seed);
            }
        }
        let _ = std::io::stdout().flush();
        if skip.len() > MAX_SKIPS + 16 * unexplained_deaths as usize {
            eprintln!("HARNESS ERROR: more than {} runs of the {} batch had to be set aside because they kill the process or never yield (C09 violations; bin/check C09 reports them with a replay file); the {} check cannot continue", MAX_SKIPS, prop, prop);
            std::process::exit(2);
        }
    }
}
