//! Plans: everything a run does is fixed before the run starts (open-loop), so that a plan can be
//! written to a replay file, shrunk, and re-executed exactly.

use crate::rng::Rng;
use serde::{Deserialize, Serialize};

#[derive(Serialize, Deserialize, Clone, Debug, PartialEq)]
pub struct Knobs {
    pub max_memtable_size: usize,
    pub max_file_size: u64,
    pub max_block_size: usize,
    pub reuse_log_files: bool,
    pub bloom_bits: usize,
    pub table_cache_cap: usize,
    pub block_cache_cap: usize,
    pub level_base_bytes: u64,
    pub min_allowed_seeks: usize,
    /// WriteOptions::synchronous: 0 = never (the default), 1 = always, 2 = alternating per write
    /// (a synchronous writer is not merged into the group commit of a non-synchronous leader)
    #[serde(default)]
    pub sync_mode: u8,
    /// ReadOptions::fill_cache: 0 = always, 1 = never, 2 = alternating per read
    #[serde(default)]
    pub fill_cache_mode: u8,
    /// Iterator read-sampling period in bytes (hook H7); 0 = RainDB's 1 MiB. Small values make an
    /// iterator charge a seek to a file every few entries, so that sampled seek compactions occur.
    #[serde(default)]
    pub read_bytes_period: usize,
}

impl Knobs {
    pub fn gen(rng: &mut Rng) -> Knobs {
        // (a stream of its own: added later, must not shift the draws below)
        let read_bytes_period = *rng.fork("read-bytes-period").pick(&[0usize, 0, 0, 64, 1024, 16384]);
        let mem = *rng.pick(&[512usize, 700, 1024, 1500, 2048, 4096, 8192, 16384, 65536]);
        let mem = if rng.chance(1, 40) { 4 << 20 } else { mem };
        Knobs {
            max_memtable_size: mem,
            max_file_size: *rng.pick(&[512u64, 1024, 2048, 4096, 16384, 65536]),
            max_block_size: *rng.pick(&[16usize, 64, 128, 256, 1024, 4096]),
            reuse_log_files: rng.chance(1, 2),
            bloom_bits: *rng.pick(&[1usize, 4, 10, 20]),
            table_cache_cap: *rng.pick(&[2usize, 3, 4, 8, 1000]),
            block_cache_cap: *rng.pick(&[2usize, 4, 16, 64]),
            level_base_bytes: *rng.pick(&[512u64, 2048, 8192, 65536, 1 << 20]),
            min_allowed_seeks: *rng.pick(&[2usize, 5, 20, 100]),
            sync_mode: *rng.pick(&[0u8, 0, 1, 2, 2]),
            fill_cache_mode: *rng.pick(&[0u8, 0, 1, 2]),
            read_bytes_period,
        }
    }
}

/// A value is identified by a unique tag and padded deterministically to `len` bytes, so every
/// read is attributable to exactly one write.
#[derive(Serialize, Deserialize, Clone, Debug, PartialEq, Eq)]
pub struct Val {
    pub tag: u32,
    pub len: u32,
}

impl Val {
    pub fn bytes(&self) -> Vec<u8> {
        let head = format!("v{}#", self.tag).into_bytes();
        let len = self.len as usize;
        if len == 0 {
            // the empty value is a legal value; it is still attributable because at most one
            // write per key uses it in a plan (enforced by the generator)
            return vec![];
        }
        let mut out = Vec::with_capacity(len.max(head.len()));
        out.extend_from_slice(&head);
        let mut x = self.tag.wrapping_mul(2654435761);
        if self.tag % 3 == 0 {
            // every third value is padded with one repeated letter: highly compressible, so that
            // table blocks are actually stored compressed (pseudo-random letters are not worth
            // compressing and RainDB then stores the block raw)
            let c = b'a' + (x % 26) as u8;
            out.resize(len.max(out.len()), c);
            return out;
        }
        while out.len() < len {
            x ^= x << 13;
            x ^= x >> 17;
            x ^= x << 5;
            out.push(b'a' + (x % 26) as u8);
        }
        out
    }
}

impl Val {
    /// The shortest non-empty value that still carries the tag.
    pub fn with_min_len(mut self) -> Val {
        self.len = format!("v{}#", self.tag).len() as u32;
        self
    }
}

pub fn tag_of(bytes: &[u8]) -> Option<u32> {
    if bytes.first() != Some(&b'v') {
        return None;
    }
    let end = bytes.iter().position(|b| *b == b'#')?;
    std::str::from_utf8(&bytes[1..end]).ok()?.parse().ok()
}

#[derive(Serialize, Deserialize, Clone, Debug, PartialEq)]
pub enum Op {
    Put { k: usize, v: Val },
    Delete { k: usize },
    /// Batch of puts (Some) and deletes (None) applied atomically.
    Batch { items: Vec<(usize, Option<Val>)> },
    Get { k: usize },
    GetSnap { slot: usize, k: usize },
    Snap { slot: usize },
    Release { slot: usize },
    /// Re-read a live snapshot completely (gets + scan) and compare with its frozen model.
    SnapDump { slot: usize },
    IterOpen { slot: usize, snap: Option<usize> },
    IterSeek { slot: usize, key: Vec<u8> },
    IterFirst { slot: usize },
    IterLast { slot: usize },
    IterNext { slot: usize },
    IterPrev { slot: usize },
    /// Full forward + backward scan of a live iterator compared with its frozen model.
    IterDump { slot: usize },
    IterClose { slot: usize },
    CompactRange { start: Option<Vec<u8>>, end: Option<Vec<u8>> },
    Flush,
    Quiesce,
    /// Close and reopen with `opens[idx]`.
    Reopen { idx: usize },
    /// Full check at the latest state: dump == model, every universe key read, shape and
    /// directory oracles.
    CheckAll,
    /// C11: release nothing, give the database one reclamation opportunity (forced flush +
    /// quiesce) and compare the directory with the needed files. Skipped while an iterator lives.
    DirCheck,
    Descriptor { kind: u8 },
    /// Read a key `n` times (drives seek-triggered compaction).
    GetMany { k: usize, n: u32 },
    /// Scheduling directive, not a database call: hold this client back until another task reaches
    /// its `nth` scheduling point of a kind in `mask` (bit k = `rt::YieldKind` k), park that task
    /// there and run this client's next operation(s) until it blocks (`rt::align_request`).
    Align { mask: u16, nth: u32 },
}

/// Insert `Align` directives in front of operations whose start is worth lining up with a point
/// inside the background thread or another client (drawn from a stream of its own, so the rest of
/// the plan is what it would have been without them).
pub fn add_aligns(rng: &mut Rng, ops: &mut Vec<Op>, one_in: u64) {
    let mut out = Vec::with_capacity(ops.len() + 4);
    for op in ops.drain(..) {
        let racy = matches!(
            op,
            Op::Get { .. } | Op::GetSnap { .. } | Op::Snap { .. } | Op::Release { .. } | Op::IterOpen { .. } | Op::IterClose { .. } | Op::CompactRange { .. } | Op::Reopen { .. } | Op::Flush | Op::Descriptor { .. } | Op::Put { .. } | Op::Batch { .. } | Op::SnapDump { .. } | Op::IterDump { .. }
        );
        if racy && rng.chance(1, one_in) {
            out.push(gen_align(rng));
        }
        out.push(op);
    }
    *ops = out;
}

pub fn gen_align(rng: &mut Rng) -> Op {
    // database mutex released | any guard drop | unlocked_fair entry/exit | filesystem call | hook |
    // any point | any release of the database mutex
    let mask = *rng.pick(&[1u16 << 8, 1 << 8, 1 << 8, 1 << 7, 0b110, 0b110, 1 << 3, 1 << 4, 0x1ff, (1 << 8) | 0b110]);
    let nth = *rng.pick(&[1u32, 1, 2, 2, 3, 4, 5, 7, 10, 16]);
    // half of the directives keep the parked task parked after the client blocked (sched::ALIGN_HOLD)
    let mask = if rng.chance(1, 2) { mask | (1 << 15) } else { mask };
    Op::Align { mask, nth }
}

#[derive(Serialize, Deserialize, Clone, Debug, PartialEq)]
pub struct Plan {
    pub keys: Vec<Vec<u8>>,
    /// `opens[0]` is used for the initial open, later entries by `Reopen`.
    pub opens: Vec<Knobs>,
    /// Operations of the main (single) client, executed before `clients` start.
    pub ops: Vec<Op>,
    /// Concurrent clients (conc engine only).
    pub clients: Vec<Vec<Op>>,
    /// Operations of the main client after all concurrent clients joined.
    pub tail: Vec<Op>,
}

impl Plan {
    pub fn op_count(&self) -> usize {
        self.ops.len() + self.tail.len() + self.clients.iter().map(|c| c.len()).sum::<usize>()
    }
}

/// Key universes: shapes the properties single out.
pub fn gen_keys(rng: &mut Rng, n: usize) -> Vec<Vec<u8>> {
    let shape = rng.below(9);
    let mut keys: Vec<Vec<u8>> = vec![];
    let mut push = |k: Vec<u8>, keys: &mut Vec<Vec<u8>>| {
        if !keys.contains(&k) {
            keys.push(k);
        }
    };
    match shape {
        0 => {
            // decimal strings
            for i in 0..n {
                push(format!("k{:03}", i * 7 % 1000).into_bytes(), &mut keys);
            }
        }
        1 => {
            // one-byte keys incl. 0x00 and 0xff, plus the empty key
            push(vec![], &mut keys);
            push(vec![0x00], &mut keys);
            push(vec![0xff], &mut keys);
            while keys.len() < n.min(200) {
                push(vec![rng.below(256) as u8], &mut keys);
            }
        }
        2 => {
            // long shared prefix, differing only in the last byte
            let prefix: Vec<u8> = (0..rng.range(8, 40)).map(|_| b'p').collect();
            for i in 0..n {
                let mut k = prefix.clone();
                k.push((i * 5 % 251) as u8);
                push(k, &mut keys);
            }
        }
        3 => {
            // runs of 0xff / 0x00
            for i in 0..n {
                let b = if i % 2 == 0 { 0xffu8 } else { 0x00 };
                push(vec![b; 1 + i / 2], &mut keys);
            }
        }
        4 => {
            // prefixes of each other
            let base = b"abcdefghijklmnopqrstuvwxyz0123456789".to_vec();
            for i in 0..n {
                push(base[..(i % base.len())].to_vec(), &mut keys);
            }
            let mut i = 0u8;
            while keys.len() < n {
                let mut k = base.clone();
                k.push(i);
                push(k, &mut keys);
                i = i.wrapping_add(1);
            }
        }
        5 => {
            // random short byte strings
            while keys.len() < n {
                let len = rng.range(0, 6) as usize;
                push((0..len).map(|_| rng.below(256) as u8).collect(), &mut keys);
            }
        }
        8 => {
            // huge keys (1.5-12 KiB, long shared prefix): a manifest record embeds the smallest and
            // largest key of every file it adds, so version edits and manifest snapshots span
            // several 32 KiB log blocks (fragmented records), and so do WAL records
            let len = *rng.pick(&[1500usize, 5000, 12000]);
            for i in 0..n.min(12) {
                let mut k = vec![b'K'; len];
                k.extend_from_slice(format!("{:04}", i * 7 % 1000).as_bytes());
                push(k, &mut keys);
            }
        }
        6 => {
            // few keys, heavily rewritten
            for i in 0..n.min(6) {
                push(format!("hot{}", i).into_bytes(), &mut keys);
            }
        }
        _ => {
            // mixed
            push(vec![], &mut keys);
            push(vec![0xff, 0xff], &mut keys);
            for i in 0..n {
                push(format!("key-{:02}", i).into_bytes(), &mut keys);
            }
        }
    }
    keys.truncate(n.max(1));
    keys.sort();
    keys
}

pub struct TagGen {
    next: u32,
}

impl TagGen {
    pub fn new() -> Self {
        TagGen { next: 1 }
    }

    pub fn val(&mut self, rng: &mut Rng, profile: &ValProfile) -> Val {
        let tag = self.next;
        self.next += 1;
        let len = match rng.weighted(&profile.weights) {
            0 => 0,
            1 => 1 + rng.below(12) as u32,
            2 => 12 + rng.below(100) as u32,
            3 => profile.block_ish + rng.below(40) as u32,
            4 => profile.mem_ish + rng.below(200) as u32,
            5 => 33 * 1024 + rng.below(500) as u32,
            _ => 100 * 1024 + rng.below(2000) as u32,
        };
        // head "v<tag>#" must fit unless the value is the empty value
        let head = format!("v{}#", tag).len() as u32;
        let len = if len == 0 { 0 } else { len.max(head) };
        Val { tag, len }
    }
}

#[derive(Clone, Debug)]
pub struct ValProfile {
    /// weights for: empty, tiny, small, ~block, ~memtable, 33 KiB, 100 KiB
    pub weights: [u32; 7],
    pub block_ish: u32,
    pub mem_ish: u32,
}

impl ValProfile {
    pub fn gen(rng: &mut Rng, k: &Knobs) -> ValProfile {
        let big = if rng.chance(1, 6) { 2 } else { 0 };
        let huge = if rng.chance(1, 25) { 1 } else { 0 };
        ValProfile {
            weights: [1, 6, 12, 4, if rng.chance(1, 3) { 2 } else { 0 }, big, huge],
            block_ish: k.max_block_size as u32,
            mem_ish: (k.max_memtable_size.min(8192)) as u32,
        }
    }
}
