//! `iofault` engine (C08): the same plan is executed once without faults to number its filesystem
//! calls, then once per (call position, mode) with that call failing: transient (that call only),
//! sticky (that call and all later ones) or a failing write that leaves a prefix behind. Oracle:
//! every call returns Ok or Err; an Ok write is visible to every later Ok read; after the fault is
//! disarmed and the database reopened every Ok write is present (unless superseded) and every Err
//! write is present entirely or not at all; nothing else appears.

use crate::exec::{Case, RunOutput, Shared};
use crate::plan::{Knobs, Op};
use crate::simfs::{FaultMode, SimFs};
use crate::world::*;
use raindb::{Batch, RainDbIterator, WriteOptions, DB};
use raindb_verif_rt as rt;
use std::collections::BTreeMap;
use std::sync::Arc;

type Items = Vec<(Vec<u8>, Option<Vec<u8>>)>;

#[derive(Clone, Debug)]
struct W {
    items: Items,
    ok: bool,
    idx: usize,
}

fn with_out<R>(out: &Shared, f: impl FnOnce(&mut RunOutput) -> R) -> R {
    f(&mut out.lock().unwrap())
}

fn push_finding(out: &Shared, f: Finding) {
    with_out(out, |o| {
        if o.findings.len() < 20 {
            o.findings.push(f);
        }
    });
}

/// Values a read of `key` may legitimately return given the writes so far: the value of the last
/// Ok write, or of any failed write issued after it (a failed write may or may not have taken
/// effect).
fn allowed(writes: &[W], key: &[u8]) -> Vec<Option<Vec<u8>>> {
    let mut out: Vec<Option<Vec<u8>>> = vec![None];
    for w in writes {
        // the last element of a batch for this key wins
        if let Some((_, v)) = w.items.iter().rev().find(|(k, _)| k == key) {
            if w.ok {
                out = vec![v.clone()];
            } else if !out.contains(v) {
                out.push(v.clone());
            }
        }
    }
    out
}

/// Operations of one concurrent writer (its keys are disjoint from every other client's, so the
/// per-key write order is its own program order after the main client's earlier writes).
fn client_ops(db: Arc<DB>, plan: Arc<crate::plan::Plan>, client: usize, earlier: Vec<W>, out: Shared, label: String) -> Vec<W> {
    let nkeys = plan.keys.len();
    let mut mine: Vec<W> = vec![];
    for (idx, op) in plan.clients[client].iter().enumerate() {
        if rt::is_poisoned() {
            break;
        }
        rt::sched_point(rt::YieldKind::Client);
        with_out(&out, |o| o.stats.ops += 1);
        let mut items: Items = vec![];
        match op {
            Op::Put { k, v } => items.push((plan.keys[*k % nkeys].clone(), Some(v.bytes()))),
            Op::Delete { k } => items.push((plan.keys[*k % nkeys].clone(), None)),
            Op::Batch { items: its } => {
                for (k, v) in its {
                    items.push((plan.keys[*k % nkeys].clone(), v.as_ref().map(|v| v.bytes())));
                }
            }
            _ => {}
        }
        if !items.is_empty() {
            let mut b = Batch::new();
            for (k, v) in &items {
                match v {
                    Some(v) => {
                        b.add_put(k.clone(), v.clone());
                    }
                    None => {
                        b.add_delete(k.clone());
                    }
                }
            }
            with_out(&out, |o| o.stats.writes += 1);
            match call("apply", || db.apply(wopts(), b)) {
                Called::Ok(Ok(())) => mine.push(W { items, ok: true, idx: 10_000 * (client + 1) + idx }),
                Called::Ok(Err(_)) => {
                    with_out(&out, |o| o.stats.bump("writes_returning_err", 1));
                    mine.push(W { items, ok: false, idx: 10_000 * (client + 1) + idx })
                }
                Called::Panicked { message, location } => {
                    push_finding(&out, Finding::new(&["C08"], "panic-under-fault", "apply", format!("{}: a concurrent write panicked instead of returning an error: {} at {}", label, message, location), Some(idx)));
                    mine.push(W { items, ok: false, idx: 10_000 * (client + 1) + idx });
                    break;
                }
            }
            continue;
        }
        if let Op::Get { k } = op {
            let key = &plan.keys[*k % nkeys];
            with_out(&out, |o| o.stats.gets += 1);
            match call("get", || get(&db, None, key)) {
                Called::Ok(Ok(v)) => {
                    let mut all = earlier.clone();
                    all.extend(mine.iter().cloned());
                    let al = allowed(&all, key);
                    if !al.contains(&v) {
                        push_finding(&out, Finding::new(&["C08"], "ok-write-not-visible", "concurrent", format!("{}: client {} get({}) returned Ok({}) but its last write that returned Ok set it to {}; allowed {:?}", label, client, show_key(key), show_opt(&v), show_opt(&al[0]), al.iter().map(show_opt).collect::<Vec<_>>()), Some(idx)));
                        break;
                    }
                }
                Called::Ok(Err(_)) => with_out(&out, |o| o.stats.bump("reads_returning_err", 1)),
                Called::Panicked { message, location } => {
                    push_finding(&out, Finding::new(&["C08"], "panic-under-fault", "get", format!("{}: get panicked: {} at {}", label, message, location), Some(idx)));
                    break;
                }
            }
        }
    }
    drop(db);
    mine
}

pub fn body(case: &Case, out: &Shared) {
    let plan = &case.plan;
    let nkeys = plan.keys.len();
    let fs = Arc::new(SimFs::new());
    let mode = case.fault.as_ref().map(|f| f.mode);
    if let Some(f) = &case.fault {
        fs.arm(f.clone());
    }
    let site = |fs: &SimFs| -> String {
        let st = fs.fault_stats();
        format!("{:?}:{}", st.fired_kind.map(|k| format!("{:?}", k)).unwrap_or_default(), st.fired_class.map(crate::exec::class_name).unwrap_or("-"))
    };
    let mut writes: Vec<W> = vec![];
    let mut db: Option<DB> = None;
    let mut open_failed = false;
    let open = |k: &Knobs, create: bool| -> Result<DB, String> {
        let opts = options(fs.clone(), k, create);
        match call("open", || DB::open(opts)) {
            Called::Ok(Ok(db)) => Ok(db),
            Called::Ok(Err(e)) => Err(format!("{:?}", e)),
            Called::Panicked { message, location } => Err(format!("PANIC {} at {}", message, location)),
        }
    };
    let fault_label = |fs: &SimFs| -> String { format!("fault {:?} at call {} ({})", mode, case.fault.as_ref().map(|f| f.at_call).unwrap_or(0), site(fs)) };
    match open(&plan.opens[0], true) {
        Ok(d) => db = Some(d),
        Err(e) => {
            if e.starts_with("PANIC") {
                push_finding(out, Finding::new(&["C08"], "panic-under-fault", "open", format!("{}: DB::open panicked instead of returning an error: {}", fault_label(&fs), e), None));
            }
            open_failed = true;
        }
    }
    let mut stopped = false;
    for (idx, op) in plan.ops.iter().enumerate() {
        if rt::is_poisoned() || stopped {
            break;
        }
        let Some(d) = db.as_ref() else { break };
        with_out(out, |o| o.stats.ops += 1);
        let mut items: Items = vec![];
        match op {
            Op::Put { k, v } => items.push((plan.keys[*k % nkeys].clone(), Some(v.bytes()))),
            Op::Delete { k } => items.push((plan.keys[*k % nkeys].clone(), None)),
            Op::Batch { items: its } => {
                for (k, v) in its {
                    items.push((plan.keys[*k % nkeys].clone(), v.as_ref().map(|v| v.bytes())));
                }
            }
            _ => {}
        }
        if !items.is_empty() {
            let mut b = Batch::new();
            for (k, v) in &items {
                match v {
                    Some(v) => {
                        b.add_put(k.clone(), v.clone());
                    }
                    None => {
                        b.add_delete(k.clone());
                    }
                }
            }
            with_out(out, |o| o.stats.writes += 1);
            match call("apply", || d.apply(wopts(), b)) {
                Called::Ok(Ok(())) => writes.push(W { items, ok: true, idx }),
                Called::Ok(Err(_)) => {
                    with_out(out, |o| o.stats.bump("writes_returning_err", 1));
                    writes.push(W { items, ok: false, idx })
                }
                Called::Panicked { message, location } => {
                    push_finding(out, Finding::new(&["C08"], "panic-under-fault", "apply", format!("{}: a write panicked instead of returning an error: {} at {}", fault_label(&fs), message, location), Some(idx)));
                    writes.push(W { items, ok: false, idx });
                    stopped = true;
                }
            }
            continue;
        }
        match op {
            Op::Get { k } => {
                let key = &plan.keys[*k % nkeys];
                with_out(out, |o| o.stats.gets += 1);
                match call("get", || get(d, None, key)) {
                    Called::Ok(Ok(v)) => {
                        let al = allowed(&writes, key);
                        if !al.contains(&v) {
                            let last_ok = writes.iter().rev().find(|w| w.ok && w.items.iter().any(|(k, _)| k == key)).map(|w| w.idx);
                            push_finding(
                                out,
                                Finding::new(
                                    &["C08"],
                                    "ok-write-not-visible",
                                    "",
                                    format!("{}: get({}) returned Ok({}) but the last write that returned Ok (op {:?}) set it to {}; allowed values {:?}", fault_label(&fs), show_key(key), show_opt(&v), last_ok, show_opt(&al[0]), al.iter().map(show_opt).collect::<Vec<_>>()),
                                    Some(idx),
                                ),
                            );
                            stopped = true;
                        }
                    }
                    Called::Ok(Err(_)) => with_out(out, |o| o.stats.bump("reads_returning_err", 1)),
                    Called::Panicked { message, location } => {
                        push_finding(out, Finding::new(&["C08"], "panic-under-fault", "get", format!("{}: get panicked instead of returning an error: {} at {}", fault_label(&fs), message, location), Some(idx)));
                        stopped = true;
                    }
                }
            }
            Op::CheckAll => {
                for backward in [false, true] {
                    with_out(out, |o| o.stats.scans += 1);
                    let what = if backward { "backward scan" } else { "forward scan" };
                    let r = call("scan", || if backward { scan_backward(d, None) } else { scan_forward(d, None) });
                    match r {
                        Called::Ok(Ok(dump)) => {
                            let got: Kv = dump.iter().cloned().collect();
                            let mut keys: Vec<Vec<u8>> = plan.keys.clone();
                            for k in got.keys() {
                                if !keys.contains(k) {
                                    keys.push(k.clone());
                                }
                            }
                            for k in &keys {
                                let v = got.get(k).cloned();
                                let al = allowed(&writes, k);
                                if !al.contains(&v) {
                                    push_finding(
                                        out,
                                        Finding::new(&["C08"], "scan-ok-but-wrong", &format!("{:?}|{}", mode.unwrap_or(FaultMode::Transient), site(&fs)), format!("{}: a {} returned without any error but shows key {} = {}; explainable by the writes so far: {:?}", fault_label(&fs), what, show_key(k), show_opt(&v), al.iter().map(show_opt).collect::<Vec<_>>()), Some(idx)),
                                    );
                                    stopped = true;
                                    break;
                                }
                            }
                        }
                        Called::Ok(Err(ScanError::Err(_))) => with_out(out, |o| o.stats.bump("reads_returning_err", 1)),
                        Called::Ok(Err(ScanError::Disorder(dis))) => {
                            push_finding(out, Finding::new(&["C08", "C04"], "scan-disorder", "", format!("{}: {}", fault_label(&fs), dis), Some(idx)));
                            stopped = true;
                        }
                        Called::Panicked { message, location } => {
                            push_finding(out, Finding::new(&["C08"], "panic-under-fault", "scan", format!("{}: a scan panicked instead of returning an error: {} at {}", fault_label(&fs), message, location), Some(idx)));
                            stopped = true;
                        }
                    }
                    if stopped {
                        break;
                    }
                }
                // positioning calls under the fault: a seek that returns Ok and leaves status()
                // empty must not skip a key that has to be visible nor show an unexplained value
                if !stopped {
                    let keys = plan.keys.clone();
                    let r = call("seek-program", || -> Option<String> {
                        let mut it = d.new_iterator(raindb::ReadOptions { fill_cache: fill_cache(), snapshot: None }).ok()?;
                        // A positioning call that returns Ok and leaves status() empty must not skip a
                        // key that has to be visible, stand before its target, or show a value that
                        // no write explains.
                        let check_seek = |it: &mut dyn raindb::RainDbIterator<Key = Vec<u8>, Error = raindb::RainDBError>, t: &Vec<u8>| -> Option<String> {
                            if it.seek(t).is_err() || it.status().is_some() {
                                return None;
                            }
                            let pos = if it.is_valid() { it.current().map(|(k, v)| (k.clone(), v.clone())) } else { None };
                            let mut between: Vec<&Vec<u8>> = keys.iter().filter(|u| *u >= t && pos.as_ref().map(|p| **u < p.0).unwrap_or(true)).collect();
                            between.sort();
                            if let Some(u) = between.into_iter().find(|u| !allowed(&writes, u).contains(&None)) {
                                return Some(format!("seek to {} returned Ok with no error status, positioned at {} - but key {} lies in between and must be visible", show_key(t), pos.as_ref().map(|p| show_key(&p.0)).unwrap_or("<invalid>".into()), show_key(u)));
                            }
                            if let Some((pk, pv)) = pos {
                                if &pk < t {
                                    return Some(format!("seek to {} is positioned before its target, at {}", show_key(t), show_key(&pk)));
                                }
                                if !allowed(&writes, &pk).contains(&Some(pv.clone())) {
                                    return Some(format!("seek to {} shows {} = {} which no write explains", show_key(t), show_key(&pk), show_val(&pv)));
                                }
                            }
                            None
                        };
                        // first a full forward walk with this very iterator: if the fault hits one of
                        // its steps, the iterator has reported an error and is used again - first of
                        // all for a seek back to the key it stood on when the step failed (the block
                        // or file it was leaving), then for the seeks below
                        // (which walk comes first alternates: the second one finds most blocks in the
                        // block cache and therefore makes few filesystem calls that could fail)
                        let order = if idx % 2 == 0 { [false, true] } else { [true, false] };
                        for backward in order {
                            let positioned = if backward { it.seek_to_last().is_ok() } else { it.seek_to_first().is_ok() };
                            if !positioned {
                                continue;
                            }
                            let mut last: Option<Vec<u8>> = None;
                            let mut guard = 0;
                            while it.is_valid() && guard < 10_000 {
                                last = it.current().map(|(k, _)| k.clone());
                                if backward {
                                    it.prev();
                                } else {
                                    it.next();
                                }
                                guard += 1;
                            }
                            if it.status().is_some() {
                                if let Some(t) = last {
                                    if let Some(d) = check_seek(&mut it, &t) {
                                        return Some(format!("after a {} step of this iterator failed: {}", if backward { "prev()" } else { "next()" }, d));
                                    }
                                }
                            }
                        }
                        for k in keys.iter().take(12) {
                            for t in [k.clone(), { let mut a = k.clone(); a.push(0); a }] {
                                if let Some(d) = check_seek(&mut it, &t) {
                                    return Some(d);
                                }
                            }
                        }
                        None
                    });
                    match r {
                        Called::Ok(Some(dsc)) => {
                            push_finding(out, Finding::new(&["C08"], "seek-ok-but-wrong", &format!("{:?}|{}", mode.unwrap_or(FaultMode::Transient), site(&fs)), format!("{}: {}", fault_label(&fs), dsc), Some(idx)));
                            stopped = true;
                        }
                        Called::Ok(None) => {}
                        Called::Panicked { message, location } => {
                            push_finding(out, Finding::new(&["C08"], "panic-under-fault", "seek", format!("{}: an iterator positioning call panicked instead of returning an error: {} at {}", fault_label(&fs), message, location), Some(idx)));
                            stopped = true;
                        }
                    }
                }
            }
            Op::Flush => {
                with_out(out, |o| o.stats.flushes += 1);
                if let Called::Panicked { message, location } = call("flush", || d.verif_flush()) {
                    push_finding(out, Finding::new(&["C08"], "panic-under-fault", "flush", format!("{}: forced flush panicked: {} at {}", fault_label(&fs), message, location), Some(idx)));
                    stopped = true;
                }
            }
            Op::Quiesce => {
                let _ = call("quiesce", || d.verif_wait_quiescent());
            }
            Op::CompactRange { start, end } => {
                with_out(out, |o| o.stats.compact_ranges += 1);
                let (s, e) = (start.clone(), end.clone());
                if let Called::Panicked { message, location } = call("compact_range", || d.compact_range(s.as_deref()..e.as_deref())) {
                    push_finding(out, Finding::new(&["C08"], "panic-under-fault", "compact_range", format!("{}: compact_range panicked: {} at {}", fault_label(&fs), message, location), Some(idx)));
                    stopped = true;
                }
            }
            Op::Reopen { idx: oi } => {
                with_out(out, |o| o.stats.reopens += 1);
                let old = db.take().unwrap();
                if let Called::Panicked { message, location } = call("drop", move || drop(old)) {
                    push_finding(out, Finding::new(&["C08"], "panic-under-fault", "close", format!("{}: closing the database panicked: {} at {}", fault_label(&fs), message, location), Some(idx)));
                    break;
                }
                match open(&plan.opens[*oi % plan.opens.len()], false) {
                    Ok(d2) => db = Some(d2),
                    Err(e) => {
                        if e.starts_with("PANIC") {
                            push_finding(out, Finding::new(&["C08"], "panic-under-fault", "open", format!("{}: DB::open panicked instead of returning an error: {}", fault_label(&fs), e), Some(idx)));
                        }
                        open_failed = true;
                    }
                }
            }
            _ => {}
        }
    }
    // ---- concurrent writers (group commit under faults): disjoint key sets ----
    if !plan.clients.is_empty() && db.is_some() && !stopped && !rt::is_poisoned() {
        let shared_db = Arc::new(db.take().unwrap());
        let plan_arc = Arc::new(plan.clone());
        let label = fault_label(&fs);
        let mut hs = vec![];
        for c in 0..plan.clients.len() {
            let (d2, p2, o2, l2, earlier) = (Arc::clone(&shared_db), Arc::clone(&plan_arc), Arc::clone(out), label.clone(), writes.clone());
            let h = rt::thread::Builder::new().name(format!("writer-{}", c)).spawn(move || client_ops(d2, p2, c, earlier, o2, l2)).expect("spawn writer");
            hs.push(h);
        }
        for h in hs {
            if let Ok(w) = h.join() {
                writes.extend(w);
            }
        }
        with_out(out, |o| o.stats.probe("concurrent_writers_under_fault"));
        match Arc::try_unwrap(shared_db) {
            Ok(d) => db = Some(d),
            Err(d) => std::mem::forget(d),
        }
    }

    // ---- C11 after a transient fault that did not put the database into its error state (a failed
    // read, a refused open of a table): one reclamation opportunity later the directory holds
    // exactly the needed files, as in any other history. (With a recorded background error RainDB
    // deliberately stops collecting garbage; those runs are not judged.)
    if matches!(mode, Some(FaultMode::Transient)) && !stopped && !rt::is_poisoned() && plan.clients.is_empty() {
        if let Some(d) = db.as_ref() {
            let fired = fs.fault_stats().fired > 0;
            let r = call("flush+quiesce", || {
                let a = d.verif_flush();
                let b = d.verif_flush();
                let q = d.verif_wait_quiescent();
                (a.is_ok() && b.is_ok(), q)
            });
            if let (true, Called::Ok((true, true))) = (fired, r) {
                if let Called::Ok(shape) = call("shape", || d.verif_shape()) {
                    if shape.bad_state.is_none() && !shape.has_snapshots {
                        with_out(out, |o| o.stats.dir_checks += 1);
                        if let Some(diff) = crate::hist::dir_diff(&fs, &shape) {
                            if !diff.extra.is_empty() {
                                let kinds: Vec<String> = diff.extra_kinds.iter().cloned().collect();
                                push_finding(out, Finding::new(&["C11"], "obsolete-file-kept", &format!("after-transient-fault|{}", kinds.join("+")), format!("{}: the fault is over, the database reports no error, nothing pins a version, yet after two forced flushes and a quiesce the directory still holds {:?} (needed: {:?})", fault_label(&fs), diff.extra, diff.needed), None));
                            }
                        }
                    }
                }
            }
        }
    }

    // ---- the fault is gone: close, reopen on the surviving files, compare ----
    let st = fs.fault_stats();
    with_out(out, |o| {
        o.stats.fault_fired += st.fired;
        if st.fired > 0 {
            o.stats.fault_site = Some(format!("{:?}@{}", mode.unwrap_or(FaultMode::Transient), site(&fs)));
        }
    });
    fs.disarm();
    if let Some(d) = db.take() {
        let _ = call("drop", move || drop(d));
    }
    if rt::is_poisoned() {
        crate::hist::fold_fs_stats(&fs, out);
        return;
    }
    let any_ok = writes.iter().any(|w| w.ok);
    let k_last = plan.opens.last().unwrap();
    // ---- optionally a second, transient fault inside the recovery itself: the k-th filesystem
    // call of an intermediate reopen fails once. That open may fail (an error is a report) or
    // succeed; either way the clean reopen below must still find every acknowledged write - a
    // recovery that swallows the error and goes on with partial state (skips a log, then deletes it
    // as obsolete) loses one.
    let recovery_fault = case.params.get("recovery_fault").copied().unwrap_or(0);
    if recovery_fault > 0 && case.fault.is_some() && any_ok {
        let fired_before = fs.fault_stats().fired;
        let at = fs.calls_len() as u64 + (recovery_fault as u64 - 1);
        fs.arm(crate::simfs::FaultSpec { at_call: at, mode: FaultMode::Transient, keep: 0 });
        let r = open(k_last, false);
        let fired = fs.fault_stats().fired > fired_before;
        with_out(out, |o| {
            o.stats.bump("recovery_fault_runs", 1);
            if fired {
                o.stats.bump(if r.is_ok() { "recovery_fault_fired_open_ok" } else { "recovery_fault_fired_open_err" }, 1);
            }
        });
        match r {
            Ok(d) => {
                // use the instance a little: what it flushes and reclaims is part of the story
                let _ = call("flush", || d.verif_flush());
                let _ = call("quiesce", || d.verif_wait_quiescent());
                let _ = call("drop", move || drop(d));
            }
            Err(e) => {
                if e.starts_with("PANIC") {
                    push_finding(out, Finding::new(&["C08"], "panic-under-fault", "recovery", format!("{}; then a transient fault at call {} of the reopen: DB::open panicked instead of returning an error: {}", fault_label(&fs), recovery_fault, e), None));
                }
            }
        }
        fs.disarm();
        if rt::is_poisoned() {
            crate::hist::fold_fs_stats(&fs, out);
            return;
        }
    }
    match open(k_last, !any_ok) {
        Ok(d) => {
            match call("scan", || scan_forward(&d, None)) {
                Called::Ok(Ok(dump)) => {
                    let got: Kv = dump.iter().cloned().collect();
                    // per key: the value must be explainable by the Ok writes plus a subset of the failed ones
                    let mut keys: Vec<Vec<u8>> = plan.keys.clone();
                    for k in got.keys() {
                        if !keys.contains(k) {
                            keys.push(k.clone());
                        }
                    }
                    for k in &keys {
                        let v = got.get(k).cloned();
                        let al = allowed(&writes, k);
                        if !al.contains(&v) {
                            let class = if al.len() == 1 && writes.iter().any(|w| w.ok && w.items.iter().any(|(kk, _)| kk == k)) { "acknowledged-write-lost" } else { "unexplained-value" };
                            push_finding(
                                out,
                                Finding::new(&["C08"], class, &format!("{:?}|{}", mode.unwrap_or(FaultMode::Transient), site(&fs)), format!("{}: after the fault was disarmed and the database reopened, key {} = {} but only {:?} can be explained by the writes that returned Ok plus writes that returned Err", fault_label(&fs), show_key(k), show_opt(&v), al.iter().map(show_opt).collect::<Vec<_>>()), None),
                            );
                            break;
                        }
                    }
                    // failed put-only batches are all-or-nothing
                    for (wi, w) in writes.iter().enumerate() {
                        if w.ok || w.items.len() < 2 || w.items.iter().any(|(_, v)| v.is_none()) {
                            continue;
                        }
                        let later_touch = |k: &Vec<u8>| writes[wi + 1..].iter().any(|x| x.items.iter().any(|(kk, _)| kk == k));
                        let mut vis = 0;
                        let mut hid = 0;
                        for (k, v) in &w.items {
                            // the empty value is not attributable to one write (unique tags need
                            // at least one byte), so it cannot witness visibility
                            if later_touch(k) || v.as_ref().map(|v| v.is_empty()).unwrap_or(true) {
                                continue;
                            }
                            if got.get(k) == v.as_ref() {
                                vis += 1;
                            } else {
                                hid += 1;
                            }
                        }
                        if vis > 0 && hid > 0 {
                            push_finding(out, Finding::new(&["C08"], "failed-batch-partially-applied", "", format!("{}: the batch of op {} returned an error but {} of its keys carry its values and {} do not", fault_label(&fs), w.idx, vis, hid), Some(w.idx)));
                            break;
                        }
                    }
                }
                Called::Ok(Err(e)) => push_finding(out, Finding::new(&["C08"], "reopen-read-failed", "", format!("{}: scan after disarm + reopen failed: {:?}", fault_label(&fs), e), None)),
                Called::Panicked { .. } => {}
            }
            let _ = call("drop", move || drop(d));
        }
        Err(e) => {
            // If nothing was ever acknowledged and the fault hit the creation of the database the
            // directory may be unusable; that loses nothing. Otherwise the reopen must work.
            if any_ok {
                push_finding(out, Finding::new(&["C08"], "reopen-failed", "", format!("{}: writes were acknowledged but the database cannot be reopened after the fault is gone: {}", fault_label(&fs), e), None));
            } else {
                with_out(out, |o| o.stats.bump("reopen_failed_nothing_acked", 1));
            }
        }
    }
    let _ = open_failed;
    crate::hist::fold_fs_stats(&fs, out);
    with_out(out, |o| o.completed = true);
}
