//! Wall-clock safety net around the simulation (the only place where real time is read).
//!
//! Inside a simulated execution every blocking or yielding operation is a scheduler step, and a
//! run that takes too many steps is cut by shuttle's step bound. Code under test that spins
//! *without ever yielding* (an unbounded loop with no lock, channel or filesystem operation in it)
//! takes no step at all: the execution, which owns its OS thread, never returns, and if the loop
//! allocates, the process is eventually killed. Neither can be observed from inside the simulation.
//!
//! The watchdog runs on its own OS thread, reads the per-thread progress counter that the
//! simulator's scheduler bumps at every step, and declares a run *stuck* when the counter has not
//! moved for `RAINSIM_HANG_SECS` (default 45 s; an ordinary step takes microseconds) or when the
//! resident set of the process exceeds `RAINSIM_RSS_LIMIT_GB` (default 20; ordinary batches stay
//! below 4). The verdict never influences a run that terminates, so determinism of terminating
//! runs is untouched. A stuck run is a violation of C09 (an operation that does not terminate);
//! findings the run recorded before it got stuck are reported for the property they concern.

use crate::exec::{watch_table, Case};
use crate::report::{verif_root, KnownFindings, ReplayFile};
use crate::world::Finding;
use std::sync::atomic::Ordering;
use std::time::{Duration, Instant};

#[derive(Clone)]
pub enum Mode {
    /// `rainsim check <prop>`
    Check { prop: String, tier: String },
    /// `rainsim replay <file>`
    Replay { prop: String, signature: String, path: String },
    /// `rainsim exec-case` (child of a C15 batch): just die, the parent treats that as an outcome
    Child,
}

pub const HANG_CLASS: &str = "non-yielding-hang";

fn hang_secs() -> u64 {
    std::env::var("RAINSIM_HANG_SECS").ok().and_then(|s| s.parse().ok()).unwrap_or(45)
}

fn rss_limit_bytes() -> u64 {
    let gb: u64 = std::env::var("RAINSIM_RSS_LIMIT_GB").ok().and_then(|s| s.parse().ok()).unwrap_or(20);
    gb << 30
}

fn rss_bytes() -> u64 {
    std::fs::read_to_string("/proc/self/statm").ok().and_then(|s| s.split_whitespace().nth(1).and_then(|p| p.parse::<u64>().ok())).map(|pages| pages * 4096).unwrap_or(0)
}

struct Stuck {
    case: Case,
    findings: Vec<Finding>,
    why: String,
}

fn find_stuck() -> Option<Stuck> {
    let limit = Duration::from_secs(hang_secs());
    let rss = rss_bytes();
    let over_memory = rss > rss_limit_bytes();
    let mut table = watch_table().lock().ok()?;
    let now = Instant::now();
    let mut worst: Option<(Duration, std::thread::ThreadId)> = None;
    for (id, slot) in table.iter_mut() {
        let v = slot.progress.load(Ordering::Relaxed);
        if v != slot.last_value {
            slot.last_value = v;
            slot.last_change = now;
            continue;
        }
        let idle = now.duration_since(slot.last_change);
        if worst.map(|w| idle > w.0).unwrap_or(true) {
            worst = Some((idle, *id));
        }
    }
    let (idle, id) = worst?;
    // memory pressure: the run that has been silent the longest (at least a second) is the one
    // allocating inside a loop that never yields
    if !(idle > limit || (over_memory && idle > Duration::from_secs(1))) {
        return None;
    }
    let slot = table.get(&id)?;
    let findings = slot.out.try_lock().map(|o| o.findings.clone()).unwrap_or_default();
    let why = if idle > limit {
        format!("no scheduler step for {} s of wall-clock time (code under test loops without yielding)", idle.as_secs())
    } else {
        format!("resident set {} MiB above the limit while one run made no scheduler step for {:.1} s (code under test allocates in a loop without yielding)", rss >> 20, idle.as_secs_f64())
    };
    Some(Stuck { case: (*slot.case).clone(), findings, why })
}

fn hang_finding(why: &str) -> Finding {
    Finding { properties: vec!["C09".into()], class: HANG_CLASS.into(), signature: HANG_CLASS.into(), detail: format!("the run did not terminate: {}", why), seq: 0, op_index: None, fault: None }
}

pub fn skipped_seeds() -> Vec<u64> {
    std::env::var("RAINSIM_SKIP_SEEDS").ok().map(|s| s.split(',').filter_map(|x| u64::from_str_radix(x.trim(), 16).ok()).collect()).unwrap_or_default()
}

const MAX_SKIPS: usize = 4;

fn on_stuck_check(prop: &str, tier: &str, st: Stuck) -> ! {
    use std::io::Write;
    let known = KnownFindings::load();
    let mut pick: Option<Finding> = st.findings.iter().find(|f| f.concerns(prop) && known.matches(prop, f).is_none()).cloned();
    if pick.is_none() && prop == "C09" {
        pick = Some(hang_finding(&st.why));
    }
    let Some(f) = pick else {
        // The stuck run showed nothing about this check's property before it got stuck. Its thread
        // cannot be stopped, so the batch is started again in a fresh copy of this process without
        // that run (same seeds, hence the same other runs); the hang itself is C09's business.
        let mut skip = skipped_seeds();
        if skip.len() >= MAX_SKIPS || skip.contains(&st.case.run_seed) {
            eprintln!(
                "HARNESS ERROR: run {:016x} of the {} check did not terminate: {} ({} earlier runs of this batch were already set aside for the same reason). This is a violation of C09 (bin/check C09 reports it with a replay file); the {} check cannot continue.",
                st.case.run_seed, prop, st.why, skip.len(), prop
            );
            let _ = std::io::stderr().flush();
            std::process::exit(2);
        }
        skip.push(st.case.run_seed);
        println!("note: run {:016x} did not terminate: {}. That violates C09, not {}; restarting the batch without it ({} of at most {} runs set aside)", st.case.run_seed, st.why, prop, skip.len(), MAX_SKIPS);
        let _ = std::io::stdout().flush();
        use std::os::unix::process::CommandExt;
        let exe = std::env::current_exe().expect("current_exe");
        let list = skip.iter().map(|x| format!("{:016x}", x)).collect::<Vec<_>>().join(",");
        let err = std::process::Command::new(exe).arg("check").arg(prop).arg(tier).env("RAINSIM_SKIP_SEEDS", list).exec();
        eprintln!("HARNESS ERROR: cannot re-execute the check: {}", err);
        std::process::exit(2);
    };
    println!("violation candidate in a run that did not terminate (run_seed {:016x}; {}): [{}] {}", st.case.run_seed, st.why, f.signature, f.detail);
    let dir = verif_root().join("replays");
    let _ = std::fs::create_dir_all(&dir);
    let path = dir.join(format!("{}-{:016x}.json", prop, st.case.run_seed));
    let rf = ReplayFile { property: prop.to_string(), signature: f.signature.clone(), class: f.class.clone(), detail: f.detail.clone(), case: st.case.clone(), trace: vec![], digest: 0, shrink: Some(format!("not shrunk: {}", st.why)) };
    std::fs::write(&path, serde_json::to_string_pretty(&rf).unwrap()).expect("write replay file");
    crate::batch::write_stuck_evidence(prop, &st.why);
    println!("  what: {}", f.detail);
    let _ = std::io::stdout().flush();
    // Replace this process (its stuck thread cannot be stopped and may be eating memory) by the
    // fresh-process verification of the replay file, which prints the VIOLATION line.
    use std::os::unix::process::CommandExt;
    let exe = std::env::current_exe().expect("current_exe");
    let err = std::process::Command::new(exe).arg("verify-replay").arg(&path).exec();
    eprintln!("HARNESS ERROR: cannot re-execute for replay verification: {}", err);
    std::process::exit(2);
}

fn on_stuck_replay(prop: &str, signature: &str, path: &str, st: Stuck) -> ! {
    use std::io::Write;
    println!("replay of {} (property {}, expected signature {})", path, prop, signature);
    println!("note: the run did not terminate: {}", st.why);
    let mut all = st.findings.clone();
    all.push(hang_finding(&st.why));
    let mut reproduced = false;
    for f in &all {
        println!("  finding [{}] {:?}: {}", f.signature, f.properties, f.detail);
        if f.concerns(prop) && f.signature == signature {
            reproduced = true;
        }
    }
    if reproduced {
        println!("REPRODUCED signature={}", signature);
        println!("VIOLATION property={} replay={}", prop, path);
        let _ = std::io::stdout().flush();
        std::process::exit(1);
    }
    println!("NOT REPRODUCED (no finding with the recorded signature before the run got stuck)");
    let _ = std::io::stdout().flush();
    std::process::exit(0);
}

pub fn spawn(mode: Mode) {
    std::thread::Builder::new()
        .name("rainsim-watchdog".into())
        .spawn(move || loop {
            std::thread::sleep(Duration::from_millis(200));
            if let Some(st) = find_stuck() {
                match &mode {
                    Mode::Check { prop, tier } => on_stuck_check(prop, tier, st),
                    Mode::Replay { prop, signature, path } => on_stuck_replay(prop, signature, path, st),
                    Mode::Child => {
                        eprintln!("HANG {}", st.why);
                        std::process::exit(3);
                    }
                }
            }
        })
        .expect("spawn watchdog");
}
