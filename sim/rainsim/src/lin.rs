//! Linearizability checker for a single register (one key), WGL-style search with memoisation.
//! Histories are stamped with the simulator's global event sequence number, so no two events tie.

use std::collections::HashSet;

#[derive(Clone, Debug, PartialEq, Eq)]
pub enum RegOp {
    /// Write of a value (Some(tag)) or a delete (None).
    Write(Option<u32>),
    /// Read that returned a value (Some(tag)) or KeyNotFound (None).
    Read(Option<u32>),
}

#[derive(Clone, Debug)]
pub struct RegEvent {
    pub inv: u64,
    pub ret: u64,
    pub op: RegOp,
    /// (client, op index) for reports
    pub who: (usize, usize),
}

#[derive(Debug, PartialEq, Eq)]
pub enum LinResult {
    Ok,
    /// No linearization exists.
    Violation(String),
    /// Checker budget exceeded or history too long: counted as unchecked, never as a violation.
    Unchecked,
}

pub fn check_register(initial: Option<u32>, events: &[RegEvent], budget: usize) -> LinResult {
    let n = events.len();
    if n == 0 {
        return LinResult::Ok;
    }
    if n > 128 {
        return LinResult::Unchecked;
    }
    // quick necessary conditions give precise reports
    let written: HashSet<Option<u32>> = events.iter().filter_map(|e| if let RegOp::Write(v) = &e.op { Some(*v) } else { None }).chain(std::iter::once(initial)).collect();
    for e in events {
        if let RegOp::Read(v) = &e.op {
            if !written.contains(v) {
                return LinResult::Violation(format!("phantom read: client {} op {} returned {:?} which no write produced", e.who.0, e.who.1, v));
            }
            if let Some(tag) = v {
                // read from the future: the write of this value began after the read returned
                if let Some(w) = events.iter().find(|w| w.op == RegOp::Write(Some(*tag))) {
                    if w.inv > e.ret {
                        return LinResult::Violation(format!("read from the future: client {} op {} returned v{} whose write (client {} op {}) began after the read returned", e.who.0, e.who.1, tag, w.who.0, w.who.1));
                    }
                }
            }
        }
    }
    let full: u128 = if n == 128 { u128::MAX } else { (1u128 << n) - 1 };
    let mut memo: HashSet<(u128, Option<u32>)> = HashSet::new();
    let mut stack: Vec<(u128, Option<u32>)> = vec![(0, initial)];
    let mut visited = 0usize;
    // remember the deepest point reached for the report
    let mut best_mask: u128 = 0;
    while let Some((mask, val)) = stack.pop() {
        if mask == full {
            return LinResult::Ok;
        }
        if !memo.insert((mask, val)) {
            continue;
        }
        visited += 1;
        if visited > budget {
            return LinResult::Unchecked;
        }
        if mask.count_ones() > best_mask.count_ones() {
            best_mask = mask;
        }
        let mut min_ret = u64::MAX;
        for (i, e) in events.iter().enumerate() {
            if mask & (1u128 << i) == 0 && e.ret < min_ret {
                min_ret = e.ret;
            }
        }
        for (i, e) in events.iter().enumerate() {
            if mask & (1u128 << i) != 0 || e.inv > min_ret {
                continue;
            }
            match &e.op {
                RegOp::Write(v) => stack.push((mask | (1u128 << i), *v)),
                RegOp::Read(v) => {
                    if *v == val {
                        stack.push((mask | (1u128 << i), val));
                    }
                }
            }
        }
    }
    // describe the first operations that could not be placed
    let mut stuck: Vec<String> = vec![];
    for (i, e) in events.iter().enumerate() {
        if best_mask & (1u128 << i) == 0 {
            stuck.push(format!("client {} op {} {:?} [{}..{}]", e.who.0, e.who.1, e.op, e.inv, e.ret));
            if stuck.len() >= 4 {
                break;
            }
        }
    }
    LinResult::Violation(format!("no linearization of {} operations exists; could not place: {}", n, stuck.join("; ")))
}

#[cfg(test)]
mod tests {
    use super::*;

    fn ev(inv: u64, ret: u64, op: RegOp) -> RegEvent {
        RegEvent { inv, ret, op, who: (0, 0) }
    }

    #[test]
    fn sequential_ok() {
        let h = vec![ev(1, 2, RegOp::Write(Some(1))), ev(3, 4, RegOp::Read(Some(1))), ev(5, 6, RegOp::Write(None)), ev(7, 8, RegOp::Read(None))];
        assert_eq!(check_register(None, &h, 10000), LinResult::Ok);
    }

    #[test]
    fn stale_read_rejected() {
        let h = vec![ev(1, 2, RegOp::Write(Some(1))), ev(3, 4, RegOp::Write(Some(2))), ev(5, 6, RegOp::Read(Some(1)))];
        assert!(matches!(check_register(None, &h, 10000), LinResult::Violation(_)));
    }

    #[test]
    fn concurrent_either_order() {
        let h = vec![ev(1, 10, RegOp::Write(Some(1))), ev(2, 9, RegOp::Write(Some(2))), ev(11, 12, RegOp::Read(Some(1)))];
        assert_eq!(check_register(None, &h, 10000), LinResult::Ok);
        let h = vec![ev(1, 10, RegOp::Write(Some(1))), ev(2, 9, RegOp::Write(Some(2))), ev(11, 12, RegOp::Read(Some(2)))];
        assert_eq!(check_register(None, &h, 10000), LinResult::Ok);
    }

    #[test]
    fn lost_read_rejected() {
        // write acknowledged before the get began, get returns absent
        let h = vec![ev(1, 2, RegOp::Write(Some(1))), ev(3, 4, RegOp::Read(None))];
        assert!(matches!(check_register(None, &h, 10000), LinResult::Violation(_)));
    }

    #[test]
    fn backwards_reads_rejected() {
        let h = vec![ev(1, 2, RegOp::Write(Some(1))), ev(3, 20, RegOp::Write(Some(2))), ev(4, 5, RegOp::Read(Some(2))), ev(6, 7, RegOp::Read(Some(1)))];
        assert!(matches!(check_register(None, &h, 10000), LinResult::Violation(_)));
    }
}
