//! SplitMix64: the only source of randomness in the simulator. One `VERIF_SEED` decides
//! everything; sub-streams are derived by mixing in a label so that shrinking one aspect of a run
//! (plan, faults, schedule) does not shift the others.

#[derive(Clone, Debug)]
pub struct Rng {
    state: u64,
}

pub fn mix(mut z: u64) -> u64 {
    z = z.wrapping_add(0x9E37_79B9_7F4A_7C15);
    z = (z ^ (z >> 30)).wrapping_mul(0xBF58_476D_1CE4_E5B9);
    z = (z ^ (z >> 27)).wrapping_mul(0x94D0_49BB_1331_11EB);
    z ^ (z >> 31)
}

pub fn mix2(a: u64, b: u64) -> u64 {
    mix(mix(a) ^ b.wrapping_mul(0xD6E8_FEB8_6659_FD93))
}

pub fn label(s: &str) -> u64 {
    // FNV-1a
    let mut h: u64 = 0xcbf29ce484222325;
    for b in s.bytes() {
        h ^= b as u64;
        h = h.wrapping_mul(0x100000001b3);
    }
    h
}

impl Rng {
    pub fn new(seed: u64) -> Self {
        Rng { state: mix(seed ^ 0x5851_F42D_4C95_7F2D) }
    }

    /// Independent sub-stream.
    pub fn fork(&self, name: &str) -> Rng {
        Rng::new(mix2(self.state, label(name)))
    }

    pub fn next_u64(&mut self) -> u64 {
        self.state = self.state.wrapping_add(0x9E37_79B9_7F4A_7C15);
        let mut z = self.state;
        z = (z ^ (z >> 30)).wrapping_mul(0xBF58_476D_1CE4_E5B9);
        z = (z ^ (z >> 27)).wrapping_mul(0x94D0_49BB_1331_11EB);
        z ^ (z >> 31)
    }

    /// Uniform in [0, n). n must be > 0.
    pub fn below(&mut self, n: u64) -> u64 {
        debug_assert!(n > 0);
        // multiply-shift; bias is irrelevant here
        ((self.next_u64() as u128 * n as u128) >> 64) as u64
    }

    pub fn usize_below(&mut self, n: usize) -> usize {
        self.below(n as u64) as usize
    }

    /// Uniform in [lo, hi] inclusive.
    pub fn range(&mut self, lo: u64, hi: u64) -> u64 {
        lo + self.below(hi - lo + 1)
    }

    pub fn chance(&mut self, num: u64, den: u64) -> bool {
        self.below(den) < num
    }

    pub fn f64(&mut self) -> f64 {
        (self.next_u64() >> 11) as f64 / (1u64 << 53) as f64
    }

    pub fn pick<'a, T>(&mut self, xs: &'a [T]) -> &'a T {
        &xs[self.usize_below(xs.len())]
    }

    /// Weighted choice; returns the index.
    pub fn weighted(&mut self, weights: &[u32]) -> usize {
        let total: u64 = weights.iter().map(|w| *w as u64).sum();
        debug_assert!(total > 0);
        let mut x = self.below(total);
        for (i, w) in weights.iter().enumerate() {
            if x < *w as u64 {
                return i;
            }
            x -= *w as u64;
        }
        weights.len() - 1
    }

    pub fn shuffle<T>(&mut self, xs: &mut [T]) {
        for i in (1..xs.len()).rev() {
            let j = self.usize_below(i + 1);
            xs.swap(i, j);
        }
    }
}
