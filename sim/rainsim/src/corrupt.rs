//! `corrupt` engine (C15): the object under test is a filesystem image produced by a small base
//! run (closed cleanly or killed). Every persistent file (tables, write-ahead logs, manifest) is
//! mutated at one byte (flip one bit / zero / random byte) and tables are truncated; for each
//! mutated image a reopen simulation runs: open, get of every key, forward and backward scan.
//! Oracle: each call returns an error or exactly the model's answer; a scan that ends early
//! without any error indication is "silently wrong". For WAL mutations a state equal to the model
//! with a set of whole WAL-resident batches skipped is also accepted (documented behaviour).

use crate::exec::{Case, RunOutput, Shared};
use crate::plan::{Knobs, Op};
use crate::rng::{mix2, Rng};
use crate::simfs::{classify, FileClass, FsState, SimFs};
use crate::world::*;
use raindb::{Batch, RainDbIterator, ReadOptions, WriteOptions, DB};
use raindb_verif_rt as rt;
use serde::{Deserialize, Serialize};
use std::collections::BTreeMap;
use std::path::PathBuf;
use std::sync::Arc;

type Items = Vec<(Vec<u8>, Option<Vec<u8>>)>;

fn hex(b: &[u8]) -> String {
    b.iter().map(|x| format!("{:02x}", x)).collect()
}

fn unhex(s: &str) -> Vec<u8> {
    (0..s.len() / 2).map(|i| u8::from_str_radix(&s[2 * i..2 * i + 2], 16).unwrap_or(0)).collect()
}

/// Everything needed to re-run one corruption check without the base run (replay files embed the
/// image because manifest record bytes are process dependent).
#[derive(Serialize, Deserialize, Clone, Debug, PartialEq)]
pub struct CorruptSpec {
    /// (path, hex contents) of the mutated image
    pub files: Vec<(String, String)>,
    pub dirs: Vec<String>,
    /// all acknowledged writes of the base run in order: (hex key, Some(hex value) | None)
    pub writes: Vec<Vec<(String, Option<String>)>>,
    /// indices into `writes` of the batches that live in the mutated WAL (may be skipped as a whole)
    pub skippable: Vec<usize>,
    pub keys: Vec<String>,
    pub what: String,
    pub knobs: Knobs,
    pub file_class: String,
}

fn with_out<R>(out: &Shared, f: impl FnOnce(&mut RunOutput) -> R) -> R {
    f(&mut out.lock().unwrap())
}

fn push_finding(out: &Shared, f: Finding) {
    with_out(out, |o| {
        if o.findings.len() < 12 {
            o.findings.push(f);
        }
    });
}

fn fold(writes: &[Items], skip: &[usize]) -> Kv {
    let mut m = Kv::new();
    for (i, w) in writes.iter().enumerate() {
        if skip.contains(&i) {
            continue;
        }
        for (k, v) in w {
            match v {
                Some(v) => {
                    m.insert(k.clone(), v.clone());
                }
                None => {
                    m.remove(k);
                }
            }
        }
    }
    m
}

/// Which states may a reopened database legitimately show: the model, or (WAL mutations only)
/// the model with a set of whole WAL-resident batches skipped.
pub struct Explainer {
    writes: Vec<Items>,
    skippable: Vec<usize>,
    model: Kv,
    /// exact candidate states when the number of skippable batches is small
    exact: Option<Vec<Kv>>,
}

impl Explainer {
    pub fn new(writes: &[Items], skippable: &[usize]) -> Explainer {
        let exact = if skippable.len() <= 10 {
            let mut out: Vec<Kv> = vec![];
            for mask in 0..(1u32 << skippable.len()) {
                let skip: Vec<usize> = skippable.iter().enumerate().filter(|(i, _)| mask & (1 << i) != 0).map(|(_, w)| *w).collect();
                let m = fold(writes, &skip);
                if !out.contains(&m) {
                    out.push(m);
                }
            }
            Some(out)
        } else {
            None
        };
        Explainer { writes: writes.to_vec(), skippable: skippable.to_vec(), model: fold(writes, &[]), exact }
    }

    /// Values `key` may have: the value of a write to it such that every later write to it is
    /// skippable (or absent if every write to it is skippable).
    pub fn allowed(&self, key: &[u8]) -> Vec<Option<Vec<u8>>> {
        let mut out: Vec<Option<Vec<u8>>> = vec![];
        let mut all_later_skippable = true;
        for (i, w) in self.writes.iter().enumerate().rev() {
            if let Some((_, v)) = w.iter().rev().find(|(k, _)| k == key) {
                if all_later_skippable && !out.contains(v) {
                    out.push(v.clone());
                }
                if !self.skippable.contains(&i) {
                    all_later_skippable = false;
                    break;
                }
            }
        }
        if all_later_skippable && !out.contains(&None) {
            out.push(None);
        }
        out
    }

    pub fn explains(&self, got: &Kv) -> bool {
        if let Some(c) = &self.exact {
            return c.iter().any(|m| m == got);
        }
        let mut keys: Vec<&Vec<u8>> = got.keys().collect();
        for w in &self.writes {
            for (k, _) in w {
                if !keys.contains(&k) {
                    keys.push(k);
                }
            }
        }
        keys.into_iter().all(|k| self.allowed(k).contains(&got.get(k).cloned()))
    }
}

/// True once the wall-clock budget of the batch (`RAINSIM_DEADLINE_MS`, unix milliseconds, set by
/// the batch runner and inherited by child processes) plus a grace period is used up.
fn deadline_passed() -> bool {
    static DEADLINE: std::sync::OnceLock<Option<u128>> = std::sync::OnceLock::new();
    let d = DEADLINE.get_or_init(|| std::env::var("RAINSIM_DEADLINE_MS").ok().and_then(|s| s.parse::<u128>().ok()));
    match d {
        Some(d) => std::time::SystemTime::now().duration_since(std::time::UNIX_EPOCH).map(|n| n.as_millis() > *d).unwrap_or(false),
        None => false,
    }
}

/// Reopen simulation on a (mutated) image. Returns the first finding, if any.
fn check_image(state: &FsState, knobs: &Knobs, keys: &[Vec<u8>], ex: &Explainer, what: &str, class: &str) -> Option<Finding> {
    let fs = Arc::new(SimFs::from_state(state.clone()));
    fs.set_record_calls(false);
    let opts = options(fs.clone(), knobs, false);
    let sig = class.to_string();
    let db = match call("open", || DB::open(opts)) {
        Called::Ok(Ok(db)) => db,
        Called::Ok(Err(_)) => return None, // detected
        Called::Panicked { message, location } => {
            return Some(Finding::new(&["C15"], "panic-on-corrupt-file", &format!("{}|open|{}", sig, panic_signature(&message, &location)), format!("{}: DB::open panicked instead of returning an error: {} at {}", what, message, location), None));
        }
    };
    let mut finding: Option<Finding> = None;
    'checks: {
        for k in keys {
            match call("get", || get(&db, None, k)) {
                Called::Ok(Ok(v)) => {
                    if !ex.allowed(k).contains(&v) {
                        finding = Some(Finding::new(&["C15"], "wrong-value-served", &format!("{}|get", sig), format!("{}: get({}) returned Ok({}) which is not what was written (model: {})", what, show_key(k), show_opt(&v), show_opt(&ex.model.get(k).cloned())), None));
                        break 'checks;
                    }
                }
                Called::Ok(Err(_)) => {}
                Called::Panicked { message, location } => {
                    finding = Some(Finding::new(&["C15"], "panic-on-corrupt-file", &format!("{}|get|{}", sig, panic_signature(&message, &location)), format!("{}: get panicked instead of returning an error: {} at {}", what, message, location), None));
                    break 'checks;
                }
            }
        }
        for backward in [false, true] {
            let r = if backward { call("scan-backward", || scan_backward(&db, None)) } else { call("scan", || scan_forward(&db, None)) };
            match r {
                Called::Ok(Ok(d)) => {
                    let got: Kv = d.iter().cloned().collect();
                    if !ex.explains(&got) {
                        let diff = diff_kv(&d, &ex.model).unwrap_or_default();
                        let dir = if backward { "backward" } else { "forward" };
                        finding = Some(Finding::new(&["C15"], "scan-silently-wrong", &format!("{}|scan-{}", sig, dir), format!("{}: the {} scan returned without any error but its contents are not what was written: {}", what, dir, diff), None));
                        break 'checks;
                    }
                }
                Called::Ok(Err(ScanError::Err(_))) => {}
                Called::Ok(Err(ScanError::Disorder(dd))) => {
                    finding = Some(Finding::new(&["C15"], "scan-silently-wrong", &format!("{}|disorder", sig), format!("{}: scan out of order: {}", what, dd), None));
                    break 'checks;
                }
                Called::Panicked { message, location } => {
                    finding = Some(Finding::new(&["C15"], "panic-on-corrupt-file", &format!("{}|scan|{}", sig, panic_signature(&message, &location)), format!("{}: a scan panicked instead of returning an error: {} at {}", what, message, location), None));
                    break 'checks;
                }
            }
        }
    }
    // Cursor program on a damaged table: seeks to present and absent keys, then one step forward and
    // one back. A positioning call that returns Ok and leaves status() empty must be where a sorted
    // map of the written pairs would be (no visible key between the target and the reported
    // position may be skipped, no unexplained value shown).
    if finding.is_none() && what.starts_with("table") {
        finding = seek_program(&db, keys, ex, what, &sig);
    }
    let _ = call("drop", move || drop(db));
    finding
}

/// First universe key >= `target` that must be visible (its allowed set lacks "absent") and lies
/// before `upto` (exclusive; None = no bound).
fn must_see_between(keys: &[Vec<u8>], ex: &Explainer, target: &[u8], upto: Option<&[u8]>) -> Option<Vec<u8>> {
    let mut ks: Vec<&Vec<u8>> = keys.iter().filter(|k| k.as_slice() >= target && upto.map(|u| k.as_slice() < u).unwrap_or(true)).collect();
    ks.sort();
    ks.into_iter().find(|k| !ex.allowed(k).contains(&None)).cloned()
}

fn check_pos<I: RainDbIterator<Key = Vec<u8>>>(keys: &[Vec<u8>], ex: &Explainer, target: &[u8], it: &I, how: &str) -> Option<String> {
    if it.status().is_some() {
        return None;
    }
    let pos = if it.is_valid() { it.current().map(|(k, v)| (k.clone(), v.clone())) } else { None };
    if let Some(skipped) = must_see_between(keys, ex, target, pos.as_ref().map(|p| p.0.as_slice())) {
        return Some(format!("{} {} returned Ok with no error status, positioned at {} - but key {} lies in between and was written", how, show_key(target), pos.as_ref().map(|p| show_key(&p.0)).unwrap_or("<invalid>".into()), show_key(&skipped)));
    }
    if let Some((k, v)) = pos {
        if k.as_slice() < target {
            return Some(format!("{} {} is positioned before its target, at {}", how, show_key(target), show_key(&k)));
        }
        if !ex.allowed(&k).contains(&Some(v.clone())) {
            return Some(format!("{} {} shows {} = {} which is not what was written (model: {})", how, show_key(target), show_key(&k), show_val(&v), show_opt(&ex.model.get(&k).cloned())));
        }
    }
    None
}

fn seek_program(db: &DB, keys: &[Vec<u8>], ex: &Explainer, what: &str, sig: &str) -> Option<Finding> {
    let mut targets: Vec<Vec<u8>> = vec![];
    for k in keys.iter().take(16) {
        targets.push(k.clone());
        let mut a = k.clone();
        a.push(0);
        targets.push(a);
        if !k.is_empty() {
            let mut b = k.clone();
            b.pop();
            targets.push(b);
        }
    }
    let r = call("seek-program", || -> Option<String> {
        let mut it = match db.new_iterator(ReadOptions { fill_cache: fill_cache(), snapshot: None }) {
            Ok(it) => it,
            Err(_) => return None,
        };
        // a full forward walk with this very iterator first (it stops at the damage, if it meets it)
        if it.seek_to_first().is_ok() {
            let mut guard = 0;
            while it.is_valid() && guard < 10_000 {
                it.next();
                guard += 1;
            }
        }
        let mut ti = 0usize;
        for t in &targets {
            // the same iterator is used again after it reported an error: a new positioning call
            // starts afresh and must be right or report again
            if it.seek(t).is_err() {
                continue;
            }
            if let Some(d) = check_pos(keys, ex, t, &it, "seek to") {
                return Some(d);
            }
            ti += 1;
            if ti % 2 == 1 && it.status().is_none() {
                // direction reversal right after the seek: the entry before the target
                let hi: Vec<u8> = if it.is_valid() { it.current().map(|(k, _)| k.clone()).unwrap() } else { vec![0xff; 64] };
                let was_valid = it.is_valid();
                if was_valid {
                    it.prev();
                } else if it.seek_to_last().is_err() {
                    continue;
                }
                if it.status().is_none() {
                    let pos = if it.is_valid() { it.current().map(|(k, v)| (k.clone(), v.clone())) } else { None };
                    let lo = pos.as_ref().map(|p| p.0.clone());
                    let mut between: Vec<&Vec<u8>> = keys.iter().filter(|u| lo.as_ref().map(|l| *u > l).unwrap_or(true) && (if was_valid { **u < hi } else { true })).collect();
                    between.sort();
                    if let Some(u) = between.into_iter().rev().find(|u| !ex.allowed(u).contains(&None)) {
                        return Some(format!("prev() right after seek to {} returned with no error status, positioned at {} - but key {} lies in between and was written", show_key(t), lo.as_ref().map(|k| show_key(k)).unwrap_or("<invalid>".into()), show_key(u)));
                    }
                    if let Some((k, v)) = pos {
                        if !ex.allowed(&k).contains(&Some(v.clone())) {
                            return Some(format!("prev() right after seek to {} shows {} = {} which is not what was written", show_key(t), show_key(&k), show_val(&v)));
                        }
                    }
                }
                continue;
            }
            if it.is_valid() && it.status().is_none() {
                // one step forward: the next visible key after the current one
                let cur = it.current().map(|(k, _)| k.clone()).unwrap();
                let mut after = cur.clone();
                after.push(0);
                it.next();
                if let Some(d) = check_pos(keys, ex, &after, &it, "next() after seek to") {
                    return Some(d);
                }
                // and back: must be on `cur` again (or report an error)
                if it.is_valid() && it.status().is_none() {
                    it.prev();
                    if it.status().is_none() {
                        let back = if it.is_valid() { it.current().map(|(k, _)| k.clone()) } else { None };
                        if back.as_ref() != Some(&cur) && !ex.allowed(&cur).contains(&None) {
                            return Some(format!("prev() after next() after seek to {} is at {} instead of {}", show_key(t), back.as_ref().map(|k| show_key(k)).unwrap_or("<invalid>".into()), show_key(&cur)));
                        }
                    }
                }
            }
        }
        None
    });
    match r {
        Called::Ok(Some(d)) => Some(Finding::new(&["C15"], "seek-silently-wrong", &format!("{}|seek", sig), format!("{}: {}", what, d), None)),
        Called::Ok(None) => None,
        Called::Panicked { message, location } => Some(Finding::new(&["C15"], "panic-on-corrupt-file", &format!("{}|seek|{}", sig, panic_signature(&message, &location)), format!("{}: an iterator positioning call panicked instead of returning an error: {} at {}", what, message, location), None)),
    }
}

fn spec_from(state: &FsState, writes: &[Items], skippable: &[usize], keys: &[Vec<u8>], what: &str, knobs: &Knobs, class: &str) -> CorruptSpec {
    CorruptSpec {
        files: state.names.iter().map(|(p, i)| (p.to_string_lossy().to_string(), hex(state.inodes.get(i).map(|d| d.as_slice()).unwrap_or(&[])))).collect(),
        dirs: state.dirs.iter().map(|d| d.to_string_lossy().to_string()).collect(),
        writes: writes.iter().map(|w| w.iter().map(|(k, v)| (hex(k), v.as_ref().map(|v| hex(v)))).collect()).collect(),
        skippable: skippable.to_vec(),
        keys: keys.iter().map(|k| hex(k)).collect(),
        what: what.to_string(),
        knobs: knobs.clone(),
        file_class: class.to_string(),
    }
}

fn state_from(spec: &CorruptSpec) -> FsState {
    let mut st = FsState::default();
    for d in &spec.dirs {
        st.dirs.insert(PathBuf::from(d));
    }
    for (i, (p, h)) in spec.files.iter().enumerate() {
        st.names.insert(PathBuf::from(p), i as u64 + 1);
        st.inodes.insert(i as u64 + 1, Arc::new(unhex(h)));
    }
    st.next_inode = spec.files.len() as u64 + 2;
    st
}

pub fn body(case: &Case, out: &Shared) {
    // ---- replay mode: the image is embedded ----
    if let Some(spec) = &case.corrupt {
        let st = state_from(spec);
        let writes: Vec<Items> = spec.writes.iter().map(|w| w.iter().map(|(k, v)| (unhex(k), v.as_ref().map(|v| unhex(v)))).collect()).collect();
        let keys: Vec<Vec<u8>> = spec.keys.iter().map(|k| unhex(k)).collect();
        let ex = Explainer::new(&writes, &spec.skippable);
        with_out(out, |o| o.stats.bump("corruptions_checked", 1));
        if let Some(f) = check_image(&st, &spec.knobs, &keys, &ex, &spec.what, &spec.file_class) {
            push_finding(out, f);
        }
        with_out(out, |o| o.completed = true);
        return;
    }

    // ---- base run ----
    let plan = &case.plan;
    let nkeys = plan.keys.len();
    let fs = Arc::new(SimFs::new());
    let knobs = plan.opens[0].clone();
    let opts = options(fs.clone(), &knobs, true);
    let db = match call("open", || DB::open(opts)) {
        Called::Ok(Ok(db)) => db,
        _ => return,
    };
    let mut writes: Vec<Items> = vec![];
    let mut wal_of: Vec<u64> = vec![];
    for op in plan.ops.iter() {
        if rt::is_poisoned() {
            return;
        }
        let mut items: Items = vec![];
        match op {
            Op::Put { k, v } => items.push((plan.keys[*k % nkeys].clone(), Some(v.bytes()))),
            Op::Delete { k } => items.push((plan.keys[*k % nkeys].clone(), None)),
            Op::Batch { items: its } => {
                for (k, v) in its {
                    items.push((plan.keys[*k % nkeys].clone(), v.as_ref().map(|v| v.bytes())));
                }
            }
            Op::Flush => {
                let _ = call("flush", || db.verif_flush());
            }
            Op::CompactRange { start, end } => {
                let (s, e) = (start.clone(), end.clone());
                let _ = call("compact_range", || db.compact_range(s.as_deref()..e.as_deref()));
            }
            _ => {}
        }
        if items.is_empty() {
            continue;
        }
        let mut b = Batch::new();
        for (k, v) in &items {
            match v {
                Some(v) => {
                    b.add_put(k.clone(), v.clone());
                }
                None => {
                    b.add_delete(k.clone());
                }
            }
        }
        with_out(out, |o| {
            o.stats.writes += 1;
            o.stats.ops += 1;
        });
        match call("apply", || db.apply(wopts(), b)) {
            Called::Ok(Ok(())) => {
                // the WAL the batch went to: the one active right after the write returned (a
                // rotation, if any, happens before the append)
                let wal = match call("shape", || db.verif_shape()) {
                    Called::Ok(s) => s.active_wal_number,
                    _ => 0,
                };
                writes.push(items);
                wal_of.push(wal);
            }
            _ => return,
        }
    }
    let clean = case.params.get("clean_close").copied().unwrap_or(1) != 0;
    let _ = call("quiesce", || db.verif_wait_quiescent());
    let image: FsState;
    if clean {
        let _ = call("drop", move || drop(db));
        image = fs.state();
    } else {
        image = fs.state();
        let _ = call("drop", move || drop(db));
    }
    crate::hist::fold_fs_stats(&fs, out);
    if rt::is_poisoned() {
        return;
    }
    let mut image = image;
    image.gc();
    let reopen_knobs = {
        let mut k = knobs.clone();
        k.reuse_log_files = case.params.get("reuse").copied().unwrap_or(0) != 0;
        k
    };
    // sanity: the unmutated image must read back exactly (otherwise this base run is not usable
    // as a corruption baseline; C01/C02 own that failure)
    if let Some(f) = check_image(&image, &reopen_knobs, &plan.keys, &Explainer::new(&writes, &[]), "unmutated image", "baseline") {
        let mut f = f;
        f.properties = vec!["C02".into()];
        f.class = "baseline-image-wrong".into();
        push_finding(out, f);
        return;
    }

    // ---- mutations ----
    struct Target {
        path: PathBuf,
        class: FileClass,
        len: usize,
    }
    let mut targets: Vec<Target> = vec![];
    for (p, i) in &image.names {
        let c = classify(p);
        if matches!(c, FileClass::Table | FileClass::Wal | FileClass::Manifest) {
            targets.push(Target { path: p.clone(), class: c, len: image.inodes.get(i).map(|d| d.len()).unwrap_or(0) });
        }
    }
    let max_per_file = case.params.get("max_offsets_per_file").copied().unwrap_or(150) as usize;
    let only: Option<usize> = case.params.get("only_mutation").map(|v| *v as usize);
    let in_child = std::env::var_os("RAINSIM_IN_CHILD").is_some();
    let dump_derived = case.params.get("dump_derived").copied().unwrap_or(0) != 0;
    let mut rng = Rng::new(mix2(case.run_seed, 0xC0DE));
    let mut mutation_index = 0usize;
    let mut_from = case.params.get("mut_from").copied().unwrap_or(0) as usize;
    let mut recycle_at: Option<usize> = None;
    let mut classes: std::collections::BTreeSet<String> = Default::default();
    'outer: for t in &targets {
        let class = crate::exec::class_name(t.class);
        let num: u64 = t.path.file_name().map(|n| n.to_string_lossy().chars().filter(|c| c.is_ascii_digit()).collect::<String>()).and_then(|d| d.parse().ok()).unwrap_or(0);
        let skippable: Vec<usize> = if t.class == FileClass::Wal { wal_of.iter().enumerate().filter(|(_, w)| **w == num).map(|(i, _)| i).collect() } else { vec![] };
        let ex = Explainer::new(&writes, &skippable);
        let mut offsets: Vec<usize> = (0..t.len).collect();
        if offsets.len() > max_per_file {
            // always the last 64 bytes (footer / tail) and the first 16, sample the rest
            let mut keep: Vec<usize> = offsets.iter().copied().filter(|o| *o < 16 || *o + 64 >= t.len).collect();
            let mut rest: Vec<usize> = offsets.iter().copied().filter(|o| !(*o < 16 || *o + 64 >= t.len)).collect();
            rng.shuffle(&mut rest);
            rest.truncate(max_per_file.saturating_sub(keep.len()));
            keep.extend(rest);
            keep.sort_unstable();
            offsets = keep;
        } else {
            with_out(out, |o| o.stats.bump("files_mutated_at_every_offset", 1));
        }
        let original: Vec<u8> = image.file(&t.path).map(|d| d.to_vec()).unwrap_or_default();
        // Exemptions for manifests (equivalent to a torn final write, which C16 requires every
        // reader of this format to tolerate as end-of-log, so no implementation can detect
        // them): (a) a mutated length field that makes a physical record extend past the end of
        // the file, (b) the type byte of the last physical record (Full -> First looks like a
        // writer that died after the first fragment).
        let mut headers: Vec<usize> = vec![];
        if t.class == FileClass::Manifest || t.class == FileClass::Wal {
            let mut pos = 0usize;
            while pos + 7 <= original.len() {
                let in_block = pos % 32768;
                if 32768 - in_block < 7 {
                    pos += 32768 - in_block;
                    continue;
                }
                let len = u16::from_le_bytes([original[pos + 4], original[pos + 5]]) as usize;
                headers.push(pos);
                pos += 7 + len;
            }
        }
        let is_exempt = |off: usize, nb: u8| -> bool {
            if t.class != FileClass::Manifest {
                return false;
            }
            for (i, h) in headers.iter().enumerate() {
                if off == h + 4 || off == h + 5 {
                    let mut lb = [original[h + 4], original[h + 5]];
                    lb[off - h - 4] = nb;
                    let new_len = u16::from_le_bytes(lb) as usize;
                    return h + 7 + new_len > original.len();
                }
                if off == h + 6 && i + 1 == headers.len() {
                    return true;
                }
            }
            false
        };
        let mut run_one = |make: &dyn Fn() -> FsState, what: String, kind: &str| -> bool {
            let idx = mutation_index;
            mutation_index += 1;
            if let Some(o) = only {
                if o != idx {
                    return true;
                }
            }
            if idx < mut_from {
                // evaluated by an earlier incarnation of this base run (see `recycle_at`)
                return true;
            }
            if recycle_at.is_some() {
                return true;
            }
            if in_child && only.is_none() && rt::spawned_count() > 9000 {
                // Every reopen simulation spawns tasks inside this base run's execution, and shuttle
                // keeps the stack of a finished task mapped until the execution ends: hand the rest
                // of the mutation list over to a fresh process before the mappings run out.
                recycle_at = Some(idx);
                return true;
            }
            if only.is_none() && deadline_passed() {
                // the batch's wall-clock budget is used up: the remaining mutations of this base
                // run are counted, not evaluated (which ones get evaluated never changes a verdict)
                with_out(out, |o| o.stats.bump("corruptions_skipped_after_batch_deadline", 1));
                return true;
            }
            let st_owned = make();
            let st = &st_owned;
            if in_child {
                // progress marker: if this process dies (allocation failure aborts rather than
                // unwinds) the parent knows which mutation killed it
                eprintln!("PROGRESS {}", idx);
                if dump_derived {
                    let spec = spec_from(st, &writes, &skippable, &plan.keys, &what, &reopen_knobs, class);
                    let mut c = case.clone();
                    c.corrupt = Some(spec);
                    c.plan.ops.clear();
                    c.params.remove("only_mutation");
                    c.params.remove("dump_derived");
                    println!("DERIVED {}", serde_json::to_string(&c).unwrap());
                }
            }
            with_out(out, |o| {
                o.stats.bump("corruptions_checked", 1);
                o.stats.fault_fired += 1;
            });
            classes.insert(format!("{}:{}", kind, class));
            if let Some(mut f) = check_image(st, &reopen_knobs, &plan.keys, &ex, &what, class) {
                f.op_index = Some(idx);
                let spec = spec_from(st, &writes, &skippable, &plan.keys, &what, &reopen_knobs, class);
                with_out(out, |o| {
                    if o.derived.is_none() {
                        let mut c = case.clone();
                        c.corrupt = Some(spec);
                        c.plan.ops.clear();
                        o.derived = Some(Box::new(c));
                    }
                });
                push_finding(out, f);
            }
            !rt::is_poisoned() && out.lock().unwrap().findings.len() < 3
        };
        for off in offsets {
            let b = original[off];
            let flips: [(u8, &str); 3] = [(b ^ (1 << rng.below(8)), "bitflip"), (0, "zero"), (rng.below(256) as u8, "random")];
            for (nb, kind) in flips {
                if nb == b {
                    continue;
                }
                if is_exempt(off, nb) {
                    with_out(out, |o| o.stats.bump("exempt_mutations_equivalent_to_torn_tail", 1));
                    continue;
                }
                let make = || {
                    let mut st = image.clone();
                    if let Some(f) = st.file_mut(&t.path) {
                        f[off] = nb;
                    }
                    st
                };
                let what = format!("{} byte {} of {} ({} bytes): 0x{:02x} -> 0x{:02x} ({})", class, off, t.path.display(), t.len, b, nb, kind);
                if !run_one(&make, what, kind) {
                    break 'outer;
                }
            }
        }
        // structure-aware: the record-type byte of every physical log record is rewritten to each
        // other valid type (Full 0, First 1, Middle 2, Last 3); a random byte hits one of those by
        // chance once in 256 times
        if !headers.is_empty() {
            let mut hs: Vec<usize> = headers.clone();
            if hs.len() > 40 {
                rng.shuffle(&mut hs);
                hs.truncate(40);
                hs.sort_unstable();
            }
            for h in hs {
                let off = h + 6;
                if off >= original.len() {
                    continue;
                }
                let b = original[off];
                for nb in 0u8..=3 {
                    if nb == b || is_exempt(off, nb) {
                        continue;
                    }
                    let make = || {
                        let mut st = image.clone();
                        if let Some(f) = st.file_mut(&t.path) {
                            f[off] = nb;
                        }
                        st
                    };
                    let what = format!("{} byte {} of {} ({} bytes): record type 0x{:02x} -> 0x{:02x} (type)", class, off, t.path.display(), t.len, b, nb);
                    if !run_one(&make, what, "type") {
                        break 'outer;
                    }
                }
            }
        }
        if t.class == FileClass::Table {
            // structure-aware: chunk headers of Snappy-framed (compressed) blocks. A frame stream
            // starts with the identifier chunk ff 06 00 00 "sNaPpY"; every following chunk has a
            // type byte (00 compressed, 01 uncompressed, 80-fd skippable, fe padding) and a 24-bit
            // length. Rewriting a type byte to a skippable type makes a decoder drop the chunk
            // without any complaint of its own - only the block checksum can notice.
            const MAGIC: [u8; 10] = [0xff, 0x06, 0x00, 0x00, b's', b'N', b'a', b'P', b'p', b'Y'];
            let mut chunk_headers: Vec<usize> = vec![];
            let mut i = 0usize;
            while i + MAGIC.len() <= original.len() {
                if original[i..i + MAGIC.len()] == MAGIC {
                    let mut pos = i + MAGIC.len();
                    while pos + 4 <= original.len() && matches!(original[pos], 0x00 | 0x01) {
                        let l = original[pos + 1] as usize | (original[pos + 2] as usize) << 8 | (original[pos + 3] as usize) << 16;
                        if l < 4 || pos + 4 + l > original.len() {
                            break;
                        }
                        chunk_headers.push(pos);
                        pos += 4 + l;
                    }
                    i = pos.max(i + 1);
                } else {
                    i += 1;
                }
            }
            if chunk_headers.len() > 24 {
                rng.shuffle(&mut chunk_headers);
                chunk_headers.truncate(24);
                chunk_headers.sort_unstable();
            }
            for h in chunk_headers {
                let b = original[h];
                for nb in [0x80u8, 0xfe, 0xfd, b ^ 1] {
                    let make = || {
                        let mut st = image.clone();
                        if let Some(f) = st.file_mut(&t.path) {
                            f[h] = nb;
                        }
                        st
                    };
                    let what = format!("{} byte {} of {} ({} bytes): Snappy chunk type 0x{:02x} -> 0x{:02x} (chunk)", class, h, t.path.display(), t.len, b, nb);
                    if !run_one(&make, what, "chunk") {
                        break 'outer;
                    }
                }
                // ... and the chunk length shortened by one / set to the minimum
                for (off, nb) in [(h + 1, original[h + 1].wrapping_sub(1)), (h + 2, 0u8)] {
                    if nb == original[off] {
                        continue;
                    }
                    let make = || {
                        let mut st = image.clone();
                        if let Some(f) = st.file_mut(&t.path) {
                            f[off] = nb;
                        }
                        st
                    };
                    let what = format!("{} byte {} of {} ({} bytes): Snappy chunk length byte 0x{:02x} -> 0x{:02x} (chunk)", class, off, t.path.display(), t.len, original[off], nb);
                    if !run_one(&make, what, "chunk") {
                        break 'outer;
                    }
                }
            }
            let mut cuts: Vec<usize> = (0..t.len).collect();
            if cuts.len() > max_per_file / 2 {
                rng.shuffle(&mut cuts);
                cuts.truncate(max_per_file / 2);
                cuts.sort_unstable();
            }
            for cut in cuts {
                let make = || {
                    let mut st = image.clone();
                    if let Some(f) = st.file_mut(&t.path) {
                        f.truncate(cut);
                    }
                    st
                };
                let what = format!("table {} truncated from {} to {} bytes", t.path.display(), t.len, cut);
                if !run_one(&make, what, "truncate") {
                    break 'outer;
                }
            }
        }
    }
    if let Some(at) = recycle_at {
        with_out(out, |o| {
            o.stats.extra.insert("recycle_at".to_string(), at as u64);
        });
    }
    with_out(out, |o| {
        for c in classes {
            o.stats.probe(&format!("corrupt@{}", c));
        }
        o.stats.shapes.push(vec![targets.len(), writes.len().min(40), clean as usize]);
        o.completed = true;
    });
}
