//! `logsim` engine (C12): drives the crate-private LogWriter / LogReader (through verif_api) on
//! SimFs. Storage faults: the file cut off at a byte; a writer that stops between two fragments
//! of a record followed by a new writer appending more records; clean writer re-openings.

use crate::exec::{Case, RunOutput, Shared};
use crate::rng::Rng;
use crate::simfs::{FsState, MutOp, SimFs};
use crate::world::Finding;
use raindb::fs::FileSystem;
use raindb::verif_api::{VerifLogReader, VerifLogWriter};
use serde::{Deserialize, Serialize};
use std::path::Path;
use std::sync::Arc;

pub const BLOCK: usize = 32768;
pub const HEADER: usize = 7;

#[derive(Serialize, Deserialize, Clone, Debug, PartialEq)]
pub struct LogSegment {
    /// lengths of the records this writer appends
    pub records: Vec<u32>,
    /// None = the writer is closed cleanly after its last record; Some(k) = the writer stops after
    /// the k-th filesystem write of its last record's append (k < number of writes), i.e. between
    /// two fragments, and never finishes that record
    pub die_after_writes: Option<u32>,
}

#[derive(Serialize, Deserialize, Clone, Debug, PartialEq, Default)]
pub struct LogPlan {
    pub segments: Vec<LogSegment>,
    /// how many truncation offsets to sample in addition to the boundary neighbourhoods
    pub sampled_cuts: u32,
    /// enumerate every byte offset as a truncation point (small logs)
    pub all_cuts: bool,
}

fn with_out<R>(out: &Shared, f: impl FnOnce(&mut RunOutput) -> R) -> R {
    f(&mut out.lock().unwrap())
}

fn push_finding(out: &Shared, f: Finding) {
    with_out(out, |o| {
        if o.findings.len() < 20 {
            o.findings.push(f);
        }
    });
}

pub fn record_bytes(index: usize, len: usize) -> Vec<u8> {
    let mut v = Vec::with_capacity(len);
    let head = format!("<{}:{}>", index, len).into_bytes();
    let mut x = (index as u32).wrapping_mul(2654435761) ^ (len as u32);
    for i in 0..len {
        if i < head.len() {
            v.push(head[i]);
        } else {
            x ^= x << 13;
            x ^= x >> 17;
            x ^= x << 5;
            v.push((x & 0xff) as u8);
        }
    }
    v
}

const LOG_PATH: &str = "/log/wal-1.log";

fn read_all(fs: Arc<SimFs>) -> Result<Vec<Vec<u8>>, String> {
    let fsd: Arc<dyn FileSystem> = fs;
    let mut r = VerifLogReader::new(fsd, Path::new(LOG_PATH), 0).map_err(|e| format!("reader open: {:?}", e))?;
    let mut out = vec![];
    loop {
        match r.read_record() {
            Ok((_, true)) => return Ok(out),
            Ok((rec, false)) => {
                out.push(rec);
                if out.len() > 100_000 {
                    return Err("reader does not terminate".into());
                }
            }
            Err(e) => return Err(format!("read_record: {:?}", e)),
        }
    }
}

fn describe_mismatch(got: &[Vec<u8>], want: &[Vec<u8>]) -> String {
    for (i, (g, w)) in got.iter().zip(want.iter()).enumerate() {
        if g != w {
            let gh: String = String::from_utf8_lossy(&g[..g.len().min(16)]).to_string();
            let wh: String = String::from_utf8_lossy(&w[..w.len().min(16)]).to_string();
            return format!("record #{} differs: got {} bytes starting {:?}, appended {} bytes starting {:?}", i, g.len(), gh, w.len(), wh);
        }
    }
    if got.len() > want.len() {
        let g = &got[want.len()];
        format!("reader returned {} records but only {} complete records exist; extra record of {} bytes starting {:?}", got.len(), want.len(), g.len(), String::from_utf8_lossy(&g[..g.len().min(16)]))
    } else {
        format!("reader returned {} records but {} complete records exist; first missing: {} bytes", got.len(), want.len(), want[got.len()].len())
    }
}

pub fn body(case: &Case, out: &Shared) {
    let Some(plan) = case.log_plan.as_ref() else { return };
    let fs = Arc::new(SimFs::new());
    let fsd: Arc<dyn FileSystem> = fs.clone();
    fsd.create_dir_all(Path::new("/log")).unwrap();
    // ---- write phase ----
    let mut expected: Vec<Vec<u8>> = vec![]; // complete records in order
    let mut ends: Vec<(u64, usize)> = vec![]; // (file length after the record completed, #complete records)
    let mut boundaries: Vec<u64> = vec![0]; // fragment boundaries (file lengths after each write)
    let mut index = 0usize;
    let mut had_unfinished = false;
    let mut died_at: Vec<u64> = vec![];
    for (si, seg) in plan.segments.iter().enumerate() {
        let mut w = match VerifLogWriter::new(fsd.clone(), Path::new(LOG_PATH), si > 0) {
            Ok(w) => w,
            Err(e) => {
                push_finding(out, Finding::new(&["C12"], "writer-open-failed", "", format!("LogWriter::new failed: {:?}", e), Some(si)));
                return;
            }
        };
        for (ri, len) in seg.records.iter().enumerate() {
            let data = record_bytes(index, *len as usize);
            let is_last = ri + 1 == seg.records.len();
            let log_before = fs.mut_log_len();
            let len_before = fs.state().file(Path::new(LOG_PATH)).map(|d| d.len() as u64).unwrap_or(0);
            if let Err(e) = w.append(&data) {
                push_finding(out, Finding::new(&["C12"], "append-failed", "", format!("append of a {}-byte record failed: {:?}", len, e), Some(index)));
                return;
            }
            with_out(out, |o| {
                o.stats.writes += 1;
                o.stats.ops += 1;
            });
            let writes: Vec<u64> = fs.mut_log()[log_before..].iter().filter_map(|o| if let MutOp::Write { data, .. } = &o.op { Some(data.len() as u64) } else { None }).collect();
            let mut pos = len_before;
            for wl in &writes {
                pos += wl;
                boundaries.push(pos);
            }
            if writes.len() >= 3 {
                with_out(out, |o| o.stats.probe("record_with_first_middle_last"));
            }
            match (is_last, seg.die_after_writes) {
                (true, Some(k)) if writes.len() >= 2 => {
                    // the writer stops between two filesystem writes of this record
                    let k = (k as usize).clamp(1, writes.len() - 1);
                    let keep: u64 = len_before + writes[..k].iter().sum::<u64>();
                    fs.harness_truncate(Path::new(LOG_PATH), keep as usize);
                    boundaries.retain(|b| *b <= keep);
                    died_at.push(keep);
                    had_unfinished = true;
                    with_out(out, |o| {
                        o.stats.probe("writer_died_between_fragments");
                        o.stats.fault_fired += 1;
                    });
                }
                _ => {
                    expected.push(data);
                    ends.push((pos, expected.len()));
                }
            }
            index += 1;
        }
        if si > 0 {
            with_out(out, |o| o.stats.probe("writer_reopened_in_append_mode"));
        }
        drop(w);
    }
    let final_state: FsState = fs.state();
    let file_len = final_state.file(Path::new(LOG_PATH)).map(|d| d.len()).unwrap_or(0);
    with_out(out, |o| {
        o.stats.bump("log_bytes", file_len as u64);
        o.stats.tables_created += 1; // logs have no tables; mark the run as non-trivial when it read something back
    });

    // ---- fault-free read (also the oracle for writer restarts) ----
    let mut evaluations = 0u64;
    match read_all(fs.clone()) {
        Ok(got) => {
            evaluations += 1;
            with_out(out, |o| o.stats.table_reads += 1);
            if got != expected {
                let class = if had_unfinished { "restart-after-unfinished-record" } else { "roundtrip-mismatch" };
                push_finding(
                    out,
                    Finding::new(&["C12"], class, "", format!("{} (segments {:?}; writers stopped mid-record at file lengths {:?}): {}", class, plan.segments.iter().map(|s| (s.records.clone(), s.die_after_writes)).collect::<Vec<_>>(), died_at, describe_mismatch(&got, &expected)), None),
                );
            }
        }
        Err(e) => {
            push_finding(out, Finding::new(&["C12"], "read-error", "", format!("reading the complete log failed: {}", e), None));
        }
    }

    // ---- truncation at byte offsets (only meaningful when every record was finished) ----
    if !had_unfinished && out.lock().unwrap().findings.is_empty() {
        let mut cuts: std::collections::BTreeSet<usize> = Default::default();
        if plan.all_cuts {
            cuts.extend(0..=file_len);
        } else {
            for b in boundaries.iter().map(|b| *b as usize).chain((0..=file_len / BLOCK).map(|i| i * BLOCK)) {
                for d in 0..=(HEADER + 2) {
                    if b + d <= file_len {
                        cuts.insert(b + d);
                    }
                    if b >= d {
                        cuts.insert(b - d);
                    }
                }
            }
            let mut rng = Rng::new(case.run_seed).fork("cuts");
            for _ in 0..plan.sampled_cuts {
                cuts.insert(rng.usize_below(file_len + 1));
            }
        }
        for cut in cuts {
            if out.lock().unwrap().findings.len() >= 3 {
                break;
            }
            let mut st = final_state.clone();
            if let Some(f) = st.file_mut(Path::new(LOG_PATH)) {
                f.truncate(cut);
            }
            let img = Arc::new(SimFs::from_state(st));
            img.set_record_calls(false);
            let want_n = ends.iter().filter(|(end, _)| (*end as usize) <= cut).map(|(_, n)| *n).max().unwrap_or(0);
            evaluations += 1;
            with_out(out, |o| o.stats.fault_fired += 1);
            match read_all(img) {
                Ok(got) => {
                    if got[..] != expected[..want_n] {
                        push_finding(out, Finding::new(&["C12"], "truncation-mismatch", "", format!("file of {} bytes cut at byte {}: {}", file_len, cut, describe_mismatch(&got, &expected[..want_n])), Some(cut)));
                    }
                }
                Err(e) => push_finding(out, Finding::new(&["C12"], "truncation-read-error", "", format!("file cut at byte {}: {}", cut, e), Some(cut))),
            }
        }
        with_out(out, |o| o.stats.probe("truncation_enumerated"));
    }
    with_out(out, |o| {
        o.stats.bump("log_evaluations", evaluations);
        o.stats.shapes.push(vec![plan.segments.len(), expected.len().min(9), (file_len / BLOCK).min(9), (file_len % BLOCK).min(8), had_unfinished as usize]);
        o.completed = true;
    });
}

/// Deterministic boundary grid: (start offset in block, record length) pairs around the block
/// arithmetic. Enumerated by index, independent of the seed.
pub fn grid() -> Vec<(usize, usize)> {
    let mut starts: Vec<usize> = vec![0, 1];
    starts.extend((BLOCK - 14)..BLOCK);
    let mut out = vec![];
    for s in &starts {
        let avail = BLOCK - *s;
        let mut lens: std::collections::BTreeSet<usize> = [0usize, 1, 32761, 32768, 65536 - 8, 65536, 65536 + 8, 100_000].into_iter().collect();
        // lengths that leave 0..8 bytes in the block after the record
        if avail >= HEADER {
            for left in 0..=8usize {
                if avail >= HEADER + left {
                    lens.insert(avail - HEADER - left);
                }
            }
        }
        for l in lens {
            out.push((*s, l));
        }
    }
    out
}

/// Plan for grid cell i: a filler record positions the file at `start` within the first block (or
/// at the same offset in the second block), then the record under test, then two small records.
pub fn grid_plan(i: usize) -> LogPlan {
    let g = grid();
    let (start, len) = g[i % g.len()];
    let variant = i / g.len();
    let mut records: Vec<u32> = vec![];
    if start >= HEADER {
        records.push((start - HEADER) as u32);
    } else if start > 0 {
        // offsets 1..6 within a block can only be reached in the next block after a trailer:
        // fill block one leaving `start`.. not reachable by the writer; use block-end trailer
        // cases instead (start = BLOCK - k is covered by the other grid rows)
        records.push((BLOCK - HEADER) as u32);
    }
    records.push(len as u32);
    records.push(5);
    records.push(0);
    let mut segments = vec![];
    match variant % 3 {
        0 => segments.push(LogSegment { records, die_after_writes: None }),
        1 => {
            // clean writer re-opening right before the record under test
            let split = records.len().saturating_sub(3).max(0);
            let (a, b) = records.split_at(split);
            if !a.is_empty() {
                segments.push(LogSegment { records: a.to_vec(), die_after_writes: None });
            }
            segments.push(LogSegment { records: b.to_vec(), die_after_writes: None });
        }
        _ => {
            // the writer dies inside the record under test (if it is fragmented), a new writer appends
            let split = records.len() - 2;
            let (a, b) = records.split_at(split);
            segments.push(LogSegment { records: a.to_vec(), die_after_writes: Some(1) });
            segments.push(LogSegment { records: b.to_vec(), die_after_writes: None });
        }
    }
    LogPlan { segments, sampled_cuts: 40, all_cuts: false }
}

pub fn random_plan(rng: &mut Rng, thorough: bool) -> LogPlan {
    let n_seg = 1 + rng.usize_below(3);
    let mut segments = vec![];
    let small = rng.chance(1, 2);
    for s in 0..n_seg {
        let n = 1 + rng.usize_below(if thorough { 12 } else { 6 });
        let mut records = vec![];
        for _ in 0..n {
            let len = if small {
                *rng.pick(&[0u32, 1, 3, 10, 40, 200])
            } else {
                match rng.below(10) {
                    0 => 0,
                    1 => 1,
                    2 | 3 => rng.below(300) as u32,
                    4 => (BLOCK - HEADER) as u32 - rng.below(10) as u32,
                    5 => BLOCK as u32 + rng.below(20) as u32 - 10,
                    6 => (2 * BLOCK) as u32 + rng.below(20) as u32 - 10,
                    7 => rng.below(100_000) as u32,
                    8 => 32761 - 7 + rng.below(14) as u32,
                    _ => rng.below(40_000) as u32,
                }
            };
            records.push(len);
        }
        let die = if s + 1 < n_seg && rng.chance(1, 2) {
            // make the last record fragmented so that there is a "between two fragments"
            if let Some(l) = records.last_mut() {
                if *l < BLOCK as u32 {
                    *l = BLOCK as u32 + rng.below(70_000) as u32;
                }
            }
            Some(1 + rng.below(3) as u32)
        } else {
            None
        };
        segments.push(LogSegment { records, die_after_writes: die });
    }
    let total: u64 = segments.iter().flat_map(|s| s.records.iter()).map(|l| *l as u64 + 7).sum();
    LogPlan { segments, sampled_cuts: if thorough { 400 } else { 60 }, all_cuts: total < 1500 }
}
