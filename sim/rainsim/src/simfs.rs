//! SimFs: the simulated disk. Implements the public `raindb::fs::FileSystem` trait with POSIX
//! semantics (inodes, handles that survive unlink/rename, O_APPEND-style writes), makes every
//! call a scheduling point, records a totally ordered log of mutating operations (for crash
//! images) and of all calls (for fault positions and digests), and injects faults.

use raindb::fs::{FileLock, FileSystem, InMemoryFileSystem, RandomAccessFile, ReadonlyRandomAccessFile};
use raindb_verif_rt as rt;
use serde::{Deserialize, Serialize};
use std::collections::{BTreeMap, BTreeSet};
use std::io::{self, Read, Seek, SeekFrom, Write};
use std::path::{Path, PathBuf};
use std::sync::{Arc, Mutex};

/// A mutating filesystem operation, as it reached the disk.
#[derive(Clone, Debug)]
pub enum MutOp {
    Create { path: PathBuf, inode: u64 },
    Truncate { inode: u64 },
    Write { inode: u64, data: Arc<Vec<u8>> },
    Rename { from: PathBuf, to: PathBuf },
    Remove { path: PathBuf },
    Mkdir { path: PathBuf },
    Rmdir { path: PathBuf },
    RemoveDirAll { path: PathBuf },
}

#[derive(Clone, Debug)]
pub struct LoggedOp {
    /// Global event sequence number at which the operation took effect.
    pub seq: u64,
    pub task: usize,
    pub op: MutOp,
}

#[derive(Clone, Copy, Debug, PartialEq, Eq, Hash, PartialOrd, Ord, Serialize, Deserialize)]
pub enum CallKind {
    Mkdir,
    List,
    Open,
    Rename,
    Create,
    Remove,
    Rmdir,
    Size,
    IsDir,
    Lock,
    Write,
    Read,
    Len,
}

impl CallKind {
    pub fn is_mutating(self) -> bool {
        matches!(self, CallKind::Mkdir | CallKind::Rename | CallKind::Create | CallKind::Remove | CallKind::Rmdir | CallKind::Write)
    }
}

/// Which kind of file a path names (used for coverage signatures and fault phases).
#[derive(Clone, Copy, Debug, PartialEq, Eq, Hash, PartialOrd, Ord, Serialize, Deserialize)]
pub enum FileClass {
    Wal,
    Table,
    Manifest,
    Current,
    Temp,
    Lock,
    Dir,
    Other,
}

pub fn classify(path: &Path) -> FileClass {
    let name = path.file_name().map(|n| n.to_string_lossy().to_string()).unwrap_or_default();
    if name == "CURRENT" {
        FileClass::Current
    } else if name == "LOCK" {
        FileClass::Lock
    } else if name.starts_with("MANIFEST") {
        FileClass::Manifest
    } else if name.ends_with(".log") {
        FileClass::Wal
    } else if name.ends_with(".rdb") {
        FileClass::Table
    } else if name.ends_with(".dbtemp") {
        FileClass::Temp
    } else if name == "wal" || name == "data" || path.extension().is_none() {
        FileClass::Dir
    } else {
        FileClass::Other
    }
}

#[derive(Clone, Debug)]
pub struct CallRec {
    pub seq: u64,
    pub task: usize,
    pub kind: CallKind,
    pub class: FileClass,
    pub len: u64,
    pub failed: bool,
    /// 0 = call made by RainDB on behalf of the workload, 1 = call made by an oracle.
    pub tag: u8,
}

#[derive(Clone, Copy, Debug, PartialEq, Eq, Serialize, Deserialize)]
pub enum FaultMode {
    /// Only the selected call fails.
    Transient,
    /// The selected call and every later call fail.
    Sticky,
    /// The selected write leaves a prefix of its payload behind, then fails (only that call).
    PartialWrite,
}

#[derive(Clone, Debug, PartialEq, Eq, Serialize, Deserialize)]
pub struct FaultSpec {
    /// Index into the stream of all filesystem calls of the run (0-based).
    pub at_call: u64,
    pub mode: FaultMode,
    /// For PartialWrite: how many bytes of the payload reach the disk (clamped to len-1).
    pub keep: u64,
}

#[derive(Default, Clone, Debug)]
pub struct FaultStats {
    pub fired: u64,
    pub fired_kind: Option<CallKind>,
    pub fired_class: Option<FileClass>,
    pub sticky_failures: u64,
}

/// The persistent state of the disk: a value that can be cloned cheaply (file contents are
/// shared) and rebuilt from a prefix of the mutating-op log.
#[derive(Clone, Default, Debug)]
pub struct FsState {
    pub names: BTreeMap<PathBuf, u64>,
    pub inodes: BTreeMap<u64, Arc<Vec<u8>>>,
    pub dirs: BTreeSet<PathBuf>,
    pub next_inode: u64,
}

impl FsState {
    pub fn apply(&mut self, op: &MutOp, cut: Option<usize>) {
        match op {
            MutOp::Create { path, inode } => {
                self.names.insert(path.clone(), *inode);
                self.inodes.insert(*inode, Arc::new(vec![]));
                if *inode >= self.next_inode {
                    self.next_inode = *inode + 1;
                }
            }
            MutOp::Truncate { inode } => {
                if let Some(f) = self.inodes.get_mut(inode) {
                    *f = Arc::new(vec![]);
                }
            }
            MutOp::Write { inode, data } => {
                if let Some(f) = self.inodes.get_mut(inode) {
                    let d = match cut {
                        Some(c) => &data[..c.min(data.len())],
                        None => &data[..],
                    };
                    Arc::make_mut(f).extend_from_slice(d);
                }
            }
            MutOp::Rename { from, to } => {
                if let Some(i) = self.names.remove(from) {
                    self.names.insert(to.clone(), i);
                }
            }
            MutOp::Remove { path } => {
                self.names.remove(path);
            }
            MutOp::Mkdir { path } => {
                self.dirs.insert(path.clone());
            }
            MutOp::Rmdir { path } => {
                self.dirs.remove(path);
            }
            MutOp::RemoveDirAll { path } => {
                let doomed: Vec<PathBuf> = self.names.keys().filter(|k| k.starts_with(path)).cloned().collect();
                for d in doomed {
                    self.names.remove(&d);
                }
                self.dirs.retain(|d| !d.starts_with(path));
            }
        }
    }

    /// Drop inodes that no name refers to (what a crash does to unlinked-but-open files).
    pub fn gc(&mut self) {
        let live: BTreeSet<u64> = self.names.values().copied().collect();
        self.inodes.retain(|i, _| live.contains(i));
    }

    pub fn file(&self, path: &Path) -> Option<&Arc<Vec<u8>>> {
        self.names.get(path).and_then(|i| self.inodes.get(i))
    }

    pub fn file_mut(&mut self, path: &Path) -> Option<&mut Vec<u8>> {
        let i = *self.names.get(path)?;
        self.inodes.get_mut(&i).map(Arc::make_mut)
    }

    /// Sorted list of (path, length) of all files; the canonical listing used by oracles.
    pub fn listing(&self) -> Vec<(PathBuf, u64)> {
        self.names
            .iter()
            .map(|(p, i)| (p.clone(), self.inodes.get(i).map(|d| d.len() as u64).unwrap_or(0)))
            .collect()
    }
}

struct Inner {
    st: FsState,
    mut_log: Vec<LoggedOp>,
    calls: Vec<CallRec>,
    fault: Option<FaultSpec>,
    armed: bool,
    sticky_on: bool,
    stats: FaultStats,
    record_calls: bool,
    calls_seen: u64,
    tag: u8,
}

pub struct SimFs {
    inner: Arc<Mutex<Inner>>,
    lock_fs: InMemoryFileSystem,
    yields: bool,
}

fn eio(what: &str) -> io::Error {
    io::Error::new(io::ErrorKind::Other, format!("injected I/O error (EIO) on {what}"))
}

fn enospc(what: &str) -> io::Error {
    io::Error::new(io::ErrorKind::Other, format!("injected I/O error (ENOSPC) on {what}"))
}

fn not_found(path: &Path) -> io::Error {
    io::Error::new(io::ErrorKind::NotFound, format!("no such file or directory: {:?}", path))
}

impl SimFs {
    pub fn new() -> Self {
        Self::from_state(FsState::default())
    }

    pub fn from_state(mut st: FsState) -> Self {
        st.gc();
        SimFs {
            inner: Arc::new(Mutex::new(Inner {
                st,
                mut_log: vec![],
                calls: vec![],
                fault: None,
                armed: false,
                sticky_on: false,
                stats: FaultStats::default(),
                record_calls: true,
                calls_seen: 0,
                tag: 0,
            })),
            lock_fs: InMemoryFileSystem::new(),
            yields: true,
        }
    }

    /// A SimFs whose calls are not scheduling points (for single-task checks outside shuttle
    /// scheduling relevance, e.g. recovery of crash images where only one client exists; the
    /// background thread still interleaves at lock operations).
    pub fn set_yields(&mut self, yields: bool) {
        self.yields = yields;
    }

    /// Mark subsequent calls as made by an oracle (1) or by the workload (0).
    pub fn set_tag(&self, tag: u8) {
        self.inner.lock().unwrap().tag = tag;
    }

    /// Harness-side truncation of a file (models a writer that stopped; not a RainDB call, so it is
    /// neither a scheduling point nor part of the call stream).
    pub fn harness_truncate(&self, path: &Path, len: usize) {
        let mut g = self.inner.lock().unwrap();
        if let Some(f) = g.st.file_mut(path) {
            f.truncate(len);
        }
    }

    pub fn arm(&self, fault: FaultSpec) {
        let mut g = self.inner.lock().unwrap();
        g.fault = Some(fault);
        g.armed = true;
        g.sticky_on = false;
    }

    pub fn disarm(&self) {
        let mut g = self.inner.lock().unwrap();
        g.armed = false;
        g.sticky_on = false;
    }

    pub fn fault_stats(&self) -> FaultStats {
        self.inner.lock().unwrap().stats.clone()
    }

    pub fn state(&self) -> FsState {
        self.inner.lock().unwrap().st.clone()
    }

    pub fn mut_log_len(&self) -> usize {
        self.inner.lock().unwrap().mut_log.len()
    }

    pub fn mut_log(&self) -> Vec<LoggedOp> {
        self.inner.lock().unwrap().mut_log.clone()
    }

    pub fn calls_len(&self) -> usize {
        self.inner.lock().unwrap().calls_seen as usize
    }

    /// Stop keeping per-call records (the call counter still runs); used by inner-loop recovery
    /// checks where only the count matters.
    pub fn set_record_calls(&self, on: bool) {
        self.inner.lock().unwrap().record_calls = on;
    }

    pub fn calls(&self) -> Vec<CallRec> {
        self.inner.lock().unwrap().calls.clone()
    }

    pub fn listing(&self) -> Vec<(PathBuf, u64)> {
        self.inner.lock().unwrap().st.listing()
    }

    /// Digest of the call stream: (kind, class, len, failed, task) per call. Payload bytes are
    /// deliberately not hashed (manifest records serialise a HashSet whose byte order is process
    /// dependent; lengths are not).
    pub fn digest(&self) -> u64 {
        let g = self.inner.lock().unwrap();
        let mut h: u64 = 0xcbf29ce484222325;
        for c in &g.calls {
            for v in [c.kind as u64, c.class as u64, c.len, c.failed as u64, c.task as u64] {
                h ^= v;
                h = h.wrapping_mul(0x100000001b3);
            }
        }
        h
    }

    fn enter(&self, kind: CallKind, path: &Path, len: u64) -> Result<u64, (io::Error, Option<u64>, u64)> {
        enter(&self.inner, self.yields, kind, path, len)
    }

    fn log_mut(g: &mut Inner, seq: u64, op: MutOp) {
        let task = rt::current_task();
        g.mut_log.push(LoggedOp { seq, task, op });
    }

    fn parent_exists(st: &FsState, path: &Path) -> bool {
        match path.parent() {
            Some(p) if !p.as_os_str().is_empty() => st.dirs.contains(p),
            _ => true,
        }
    }
}


/// Entry of every call: scheduling point, sequence number, call record, fault decision.
/// Returns Err((error, partial-write length, seq)) if this call must fail.
fn enter(inner: &Mutex<Inner>, yields: bool, kind: CallKind, path: &Path, len: u64) -> Result<u64, (io::Error, Option<u64>, u64)> {
    if yields {
        rt::sched_point(rt::YieldKind::Fs);
    }
    let seq = rt::next_seq();
    let task = rt::current_task();
    let mut g = inner.lock().unwrap();
    let idx = g.calls_seen;
    g.calls_seen += 1;
    let class = classify(path);
    let mut fail: Option<(io::Error, Option<u64>, u64)> = None;
    if g.armed {
        if g.sticky_on {
            g.stats.sticky_failures += 1;
            fail = Some((eio("sticky"), None, seq));
        } else if let Some(f) = g.fault.clone() {
            if f.at_call == idx {
                g.stats.fired += 1;
                g.stats.fired_kind = Some(kind);
                g.stats.fired_class = Some(class);
                match f.mode {
                    FaultMode::Transient => fail = Some((if kind == CallKind::Write { enospc("write") } else { eio("call") }, None, seq)),
                    FaultMode::Sticky => {
                        g.sticky_on = true;
                        fail = Some((eio("call (sticky from here)"), None, seq));
                    }
                    FaultMode::PartialWrite => {
                        if kind == CallKind::Write && len > 0 {
                            fail = Some((enospc("write (partial)"), Some(f.keep.min(len - 1)), seq));
                        } else {
                            fail = Some((eio("call"), None, seq));
                        }
                    }
                }
            }
        }
    }
    if g.record_calls {
        let failed = fail.is_some();
        let tag = g.tag;
        g.calls.push(CallRec { seq, task, kind, class, len, failed, tag });
    }
    match fail {
        Some(f) => Err(f),
        None => Ok(seq),
    }
}

impl Default for SimFs {
    fn default() -> Self {
        Self::new()
    }
}

pub struct SimFile {
    fs: Arc<Mutex<Inner>>,
    path: PathBuf,
    inode: u64,
    cursor: u64,
    writable: bool,
    yields: bool,
}

impl SimFile {
    fn enter(&self, kind: CallKind, len: u64) -> Result<u64, (io::Error, Option<u64>, u64)> {
        enter(&self.fs, self.yields, kind, &self.path, len)
    }

    fn data(&self) -> Arc<Vec<u8>> {
        let g = self.fs.lock().unwrap();
        g.st.inodes.get(&self.inode).cloned().unwrap_or_default()
    }
}

impl Read for SimFile {
    fn read(&mut self, buf: &mut [u8]) -> io::Result<usize> {
        self.enter(CallKind::Read, buf.len() as u64).map_err(|e| e.0)?;
        let d = self.data();
        let start = (self.cursor as usize).min(d.len());
        let n = buf.len().min(d.len() - start);
        buf[..n].copy_from_slice(&d[start..start + n]);
        self.cursor += n as u64;
        Ok(n)
    }
}

impl Seek for SimFile {
    fn seek(&mut self, pos: SeekFrom) -> io::Result<u64> {
        let len = self.data().len() as i64;
        let new = match pos {
            SeekFrom::Start(o) => o as i64,
            SeekFrom::Current(o) => self.cursor as i64 + o,
            SeekFrom::End(o) => len + o,
        };
        if new < 0 {
            return Err(io::Error::new(io::ErrorKind::InvalidInput, "negative seek"));
        }
        self.cursor = new as u64;
        Ok(self.cursor)
    }
}

impl Write for SimFile {
    fn write(&mut self, buf: &[u8]) -> io::Result<usize> {
        if !self.writable {
            return Err(io::Error::new(io::ErrorKind::PermissionDenied, "read-only handle"));
        }
        if buf.is_empty() {
            return Ok(0);
        }
        match self.enter(CallKind::Write, buf.len() as u64) {
            Ok(seq) => {
                let mut g = self.fs.lock().unwrap();
                let data = Arc::new(buf.to_vec());
                let op = MutOp::Write { inode: self.inode, data };
                g.st.apply(&op, None);
                SimFs::log_mut(&mut g, seq, op);
                self.cursor = g.st.inodes.get(&self.inode).map(|d| d.len() as u64).unwrap_or(0);
                Ok(buf.len())
            }
            Err((e, Some(keep), seq)) => {
                // a failing write that leaves a prefix behind
                let mut g = self.fs.lock().unwrap();
                let data = Arc::new(buf[..keep as usize].to_vec());
                if keep > 0 {
                    let op = MutOp::Write { inode: self.inode, data };
                    g.st.apply(&op, None);
                    SimFs::log_mut(&mut g, seq, op);
                }
                Err(e)
            }
            Err((e, None, _)) => Err(e),
        }
    }

    fn flush(&mut self) -> io::Result<()> {
        Ok(())
    }
}

impl ReadonlyRandomAccessFile for SimFile {
    fn read_from(&self, buf: &mut [u8], offset: usize) -> io::Result<usize> {
        self.enter(CallKind::Read, buf.len() as u64).map_err(|e| e.0)?;
        let d = self.data();
        let start = offset.min(d.len());
        let n = buf.len().min(d.len() - start);
        buf[..n].copy_from_slice(&d[start..start + n]);
        Ok(n)
    }

    fn len(&self) -> io::Result<u64> {
        self.enter(CallKind::Len, 0).map_err(|e| e.0)?;
        Ok(self.data().len() as u64)
    }
}

impl RandomAccessFile for SimFile {
    fn append(&mut self, buf: &[u8]) -> io::Result<usize> {
        self.write(buf)
    }
}

impl FileSystem for SimFs {
    fn get_name(&self) -> String {
        "SimFs".into()
    }

    fn create_dir(&self, path: &Path) -> io::Result<()> {
        let seq = self.enter(CallKind::Mkdir, path, 0).map_err(|e| e.0)?;
        let mut g = self.inner.lock().unwrap();
        if g.st.dirs.contains(path) || g.st.names.contains_key(path) {
            return Err(io::Error::new(io::ErrorKind::AlreadyExists, "exists"));
        }
        if !SimFs::parent_exists(&g.st, path) {
            return Err(not_found(path));
        }
        let op = MutOp::Mkdir { path: path.to_path_buf() };
        g.st.apply(&op, None);
        SimFs::log_mut(&mut g, seq, op);
        Ok(())
    }

    fn create_dir_all(&self, path: &Path) -> io::Result<()> {
        let seq = self.enter(CallKind::Mkdir, path, 0).map_err(|e| e.0)?;
        let mut g = self.inner.lock().unwrap();
        let mut chain: Vec<PathBuf> = path.ancestors().filter(|a| !a.as_os_str().is_empty() && *a != Path::new("/")).map(|a| a.to_path_buf()).collect();
        chain.reverse();
        for p in chain {
            if !g.st.dirs.contains(&p) {
                let op = MutOp::Mkdir { path: p };
                g.st.apply(&op, None);
                SimFs::log_mut(&mut g, seq, op);
            }
        }
        Ok(())
    }

    fn list_dir(&self, path: &Path) -> io::Result<Vec<PathBuf>> {
        self.enter(CallKind::List, path, 0).map_err(|e| e.0)?;
        let g = self.inner.lock().unwrap();
        if !g.st.dirs.contains(path) {
            return Err(not_found(path));
        }
        let mut out: BTreeSet<PathBuf> = BTreeSet::new();
        for k in g.st.names.keys().chain(g.st.dirs.iter()) {
            if k.parent() == Some(path) {
                out.insert(k.clone());
            }
        }
        Ok(out.into_iter().collect())
    }

    fn open_file(&self, path: &Path) -> io::Result<Box<dyn ReadonlyRandomAccessFile>> {
        self.enter(CallKind::Open, path, 0).map_err(|e| e.0)?;
        let g = self.inner.lock().unwrap();
        let inode = *g.st.names.get(path).ok_or_else(|| not_found(path))?;
        Ok(Box::new(SimFile { fs: Arc::clone(&self.inner), path: path.to_path_buf(), inode, cursor: 0, writable: false, yields: self.yields }))
    }

    fn rename(&self, from: &Path, to: &Path) -> io::Result<()> {
        let seq = self.enter(CallKind::Rename, to, 0).map_err(|e| e.0)?;
        let mut g = self.inner.lock().unwrap();
        if !g.st.names.contains_key(from) {
            return Err(not_found(from));
        }
        let op = MutOp::Rename { from: from.to_path_buf(), to: to.to_path_buf() };
        g.st.apply(&op, None);
        SimFs::log_mut(&mut g, seq, op);
        Ok(())
    }

    fn create_file(&self, path: &Path, append: bool) -> io::Result<Box<dyn RandomAccessFile>> {
        let seq = self.enter(CallKind::Create, path, 0).map_err(|e| e.0)?;
        let mut g = self.inner.lock().unwrap();
        if g.st.dirs.contains(path) {
            return Err(io::Error::new(io::ErrorKind::Other, "is a directory"));
        }
        if !SimFs::parent_exists(&g.st, path) {
            return Err(not_found(path));
        }
        let inode = match g.st.names.get(path).copied() {
            Some(inode) => {
                if !append {
                    let op = MutOp::Truncate { inode };
                    g.st.apply(&op, None);
                    SimFs::log_mut(&mut g, seq, op);
                }
                inode
            }
            None => {
                let inode = g.st.next_inode;
                let op = MutOp::Create { path: path.to_path_buf(), inode };
                g.st.apply(&op, None);
                SimFs::log_mut(&mut g, seq, op);
                inode
            }
        };
        let cursor = g.st.inodes.get(&inode).map(|d| d.len() as u64).unwrap_or(0);
        Ok(Box::new(SimFile { fs: Arc::clone(&self.inner), path: path.to_path_buf(), inode, cursor, writable: true, yields: self.yields }))
    }

    fn remove_file(&self, path: &Path) -> io::Result<()> {
        let seq = self.enter(CallKind::Remove, path, 0).map_err(|e| e.0)?;
        let mut g = self.inner.lock().unwrap();
        if !g.st.names.contains_key(path) {
            return Err(not_found(path));
        }
        let op = MutOp::Remove { path: path.to_path_buf() };
        g.st.apply(&op, None);
        SimFs::log_mut(&mut g, seq, op);
        Ok(())
    }

    fn remove_dir(&self, path: &Path) -> io::Result<()> {
        let seq = self.enter(CallKind::Rmdir, path, 0).map_err(|e| e.0)?;
        let mut g = self.inner.lock().unwrap();
        if !g.st.dirs.contains(path) {
            return Err(not_found(path));
        }
        let non_empty = g.st.names.keys().chain(g.st.dirs.iter()).any(|k| k.parent() == Some(path));
        if non_empty {
            return Err(io::Error::new(io::ErrorKind::Other, "directory not empty"));
        }
        let op = MutOp::Rmdir { path: path.to_path_buf() };
        g.st.apply(&op, None);
        SimFs::log_mut(&mut g, seq, op);
        Ok(())
    }

    fn remove_dir_all(&self, path: &Path) -> io::Result<()> {
        let seq = self.enter(CallKind::Rmdir, path, 0).map_err(|e| e.0)?;
        let mut g = self.inner.lock().unwrap();
        if !g.st.dirs.contains(path) {
            return Err(not_found(path));
        }
        let op = MutOp::RemoveDirAll { path: path.to_path_buf() };
        g.st.apply(&op, None);
        SimFs::log_mut(&mut g, seq, op);
        Ok(())
    }

    fn get_file_size(&self, path: &Path) -> io::Result<u64> {
        self.enter(CallKind::Size, path, 0).map_err(|e| e.0)?;
        let g = self.inner.lock().unwrap();
        match g.st.file(path) {
            Some(d) => Ok(d.len() as u64),
            None if g.st.dirs.contains(path) => Ok(4096),
            None => Err(not_found(path)),
        }
    }

    fn is_dir(&self, path: &Path) -> io::Result<bool> {
        self.enter(CallKind::IsDir, path, 0).map_err(|e| e.0)?;
        let g = self.inner.lock().unwrap();
        if g.st.dirs.contains(path) {
            return Ok(true);
        }
        if g.st.names.contains_key(path) {
            return Ok(false);
        }
        Err(not_found(path))
    }

    fn lock_file(&self, path: &Path) -> io::Result<FileLock> {
        let seq = self.enter(CallKind::Lock, path, 0).map_err(|e| e.0)?;
        {
            let mut g = self.inner.lock().unwrap();
            if !SimFs::parent_exists(&g.st, path) {
                return Err(not_found(path));
            }
            match g.st.names.get(path).copied() {
                None => {
                    let inode = g.st.next_inode;
                    let op = MutOp::Create { path: path.to_path_buf(), inode };
                    g.st.apply(&op, None);
                    SimFs::log_mut(&mut g, seq, op);
                }
                Some(inode) => {
                    // fs_disk.rs opens the lock file with truncate(true)
                    let non_empty = g.st.inodes.get(&inode).map(|d| !d.is_empty()).unwrap_or(false);
                    if non_empty {
                        let op = MutOp::Truncate { inode };
                        g.st.apply(&op, None);
                        SimFs::log_mut(&mut g, seq, op);
                    }
                }
            }
        }
        // `FileLock::new` needs a crate-private trait object; borrow one from a private
        // in-memory filesystem. The single-owner property (C17) is checked on the real disk
        // filesystem, not here.
        self.lock_fs.lock_file(path)
    }
}
