//! rainsim: deterministic simulation with fault injection for nerdondon/raindb.

mod batch;
mod checks;
mod conc;
mod corrupt;
mod crash;
mod exec;
mod gen;
mod hist;
mod iofault;
mod lin;
mod lockrace;
mod logsim;
mod plan;
mod report;
mod rng;
mod sched;
mod simfs;
mod world;

use batch::Tier;

fn usage() -> ! {
    eprintln!("usage: rainsim check <PROPERTY> <quick|thorough> | rainsim replay <file> | rainsim selftest determinism [n]");
    std::process::exit(2);
}

struct StderrLogger;

impl log::Log for StderrLogger {
    fn enabled(&self, _m: &log::Metadata) -> bool {
        true
    }
    fn log(&self, r: &log::Record) {
        eprintln!("[{} seq={} task={}] {}", r.level(), raindb_verif_rt::current_seq(), raindb_verif_rt::current_task() as i64, r.args());
    }
    fn flush(&self) {}
}

fn main() {
    if let Ok(l) = std::env::var("RAINSIM_LOG") {
        static LOGGER: StderrLogger = StderrLogger;
        let _ = log::set_logger(&LOGGER);
        log::set_max_level(match l.as_str() {
            "debug" => log::LevelFilter::Debug,
            "warn" => log::LevelFilter::Warn,
            "error" => log::LevelFilter::Error,
            _ => log::LevelFilter::Info,
        });
    }
    let args: Vec<String> = std::env::args().collect();
    match args.get(1).map(|s| s.as_str()) {
        Some("check") => {
            let prop = args.get(2).unwrap_or_else(|| usage());
            let tier = match args.get(3).map(|s| s.as_str()).or(std::env::var("VERIF_TIER").ok().as_deref().map(|_| "env")) {
                Some("thorough") => Tier::Thorough,
                Some("env") => {
                    if std::env::var("VERIF_TIER").unwrap() == "thorough" {
                        Tier::Thorough
                    } else {
                        Tier::Quick
                    }
                }
                _ => Tier::Quick,
            };
            let Some(spec) = checks::spec_for(prop) else {
                eprintln!("HARNESS ERROR: no check for property {}", prop);
                std::process::exit(2);
            };
            std::process::exit(batch::run_check(&spec, tier));
        }
        Some("replay") => {
            let path = args.get(2).unwrap_or_else(|| usage());
            let rf = report::read_replay(std::path::Path::new(path));
            let res = checks::exec_case(&rf.case);
            println!("replay of {} (property {}, expected signature {})", path, rf.property, rf.signature);
            if let Some(d) = res.replay_diverged {
                println!("note: recorded schedule diverged at step {} (the code under test changed since the recording)", d);
            }
            for l in res.trace.iter().take(60) {
                println!("  trace: {}", l);
            }
            let mut reproduced = false;
            for f in res.findings.iter() {
                println!("  finding [{}] {:?}: {}", f.signature, f.properties, f.detail);
                if f.concerns(&rf.property) && f.signature == rf.signature {
                    reproduced = true;
                }
            }
            if reproduced {
                println!("REPRODUCED signature={}", rf.signature);
                println!("VIOLATION property={} replay={}", rf.property, path);
                std::process::exit(1);
            } else {
                println!("NOT REPRODUCED (no finding with the recorded signature)");
                std::process::exit(0);
            }
        }
        _ => usage(),
    }
}
