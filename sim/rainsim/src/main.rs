//! rainsim: deterministic simulation with fault injection for nerdondon/raindb.

mod batch;
mod checks;
mod conc;
mod corrupt;
mod crash;
mod exec;
mod gen;
mod hist;
mod iofault;
mod lin;
mod lockrace;
mod logsim;
mod plan;
mod report;
mod rng;
mod sched;
mod simfs;
mod supervise;
mod watchdog;
mod world;

use batch::Tier;

fn usage() -> ! {
    eprintln!("usage: rainsim check <PROPERTY> <quick|thorough> | rainsim replay <file> | rainsim selftest determinism [n]");
    std::process::exit(2);
}

struct StderrLogger;

impl log::Log for StderrLogger {
    fn enabled(&self, _m: &log::Metadata) -> bool {
        true
    }
    fn log(&self, r: &log::Record) {
        eprintln!("[{} seq={} task={}] {}", r.level(), raindb_verif_rt::current_seq(), raindb_verif_rt::current_task() as i64, r.args());
    }
    fn flush(&self) {}
}

extern "C" {
    fn mallopt(param: i32, value: i32) -> i32;
}

/// Every simulated run opens a database, which allocates (and at the end frees) several megabytes;
/// with glibc's defaults that memory goes back to the kernel and is page-faulted in again by the
/// next run (measured: 2 900 minor faults and 8 ms of system time per C15 evaluation, 80 % of the
/// wall time). Keep freed memory in the process instead. Performance only; no effect on what a run
/// computes.
fn tune_allocator() {
    const M_TRIM_THRESHOLD: i32 = -1;
    const M_TOP_PAD: i32 = -2;
    const M_MMAP_THRESHOLD: i32 = -3;
    unsafe {
        // bounded retention: at most 256 MiB of free heap top per process (eight C15 children with an
        // unbounded threshold exhausted the machine in a thorough run)
        mallopt(M_MMAP_THRESHOLD, 32 << 20);
        mallopt(M_TRIM_THRESHOLD, 256 << 20);
        mallopt(M_TOP_PAD, 32 << 20);
    }
}

fn main() {
    tune_allocator();
    if let Ok(l) = std::env::var("RAINSIM_LOG") {
        static LOGGER: StderrLogger = StderrLogger;
        let _ = log::set_logger(&LOGGER);
        log::set_max_level(match l.as_str() {
            "debug" => log::LevelFilter::Debug,
            "warn" => log::LevelFilter::Warn,
            "error" => log::LevelFilter::Error,
            _ => log::LevelFilter::Info,
        });
    }
    let args: Vec<String> = std::env::args().collect();
    match args.get(1).map(|s| s.as_str()) {
        Some("check") => {
            let prop = args.get(2).unwrap_or_else(|| usage());
            let tier = match args.get(3).map(|s| s.as_str()).or(std::env::var("VERIF_TIER").ok().as_deref().map(|_| "env")) {
                Some("thorough") => Tier::Thorough,
                Some("env") => {
                    if std::env::var("VERIF_TIER").unwrap() == "thorough" {
                        Tier::Thorough
                    } else {
                        Tier::Quick
                    }
                }
                _ => Tier::Quick,
            };
            let Some(spec) = checks::spec_for(prop) else {
                eprintln!("HARNESS ERROR: no check for property {}", prop);
                std::process::exit(2);
            };
            if std::env::var_os("RAINSIM_SUPERVISED").is_none() && std::env::var_os("RAINSIM_NO_SUPERVISOR").is_none() {
                // run the batch in a child process; if it gets killed, find the run that kills it
                supervise::supervise_check(prop, tier);
            }
            watchdog::spawn(watchdog::Mode::Check { prop: prop.clone(), tier: tier.name().to_string() });
            std::process::exit(batch::run_check(&spec, tier));
        }
        Some("replay") => {
            let path = args.get(2).unwrap_or_else(|| usage());
            let rf = report::read_replay(std::path::Path::new(path));
            if rf.class == supervise::ABORT_CLASS {
                // the recorded violation is "this run kills its process": execute it in a child
                println!("replay of {} (property {}, expected signature {})", path, rf.property, rf.signature);
                let (res, _, _, st) = checks::run_child(&rf.case);
                if res.is_none() {
                    println!("  the child process executing the run died: {}", st);
                    println!("REPRODUCED signature={}", rf.signature);
                    println!("VIOLATION property={} replay={}", rf.property, path);
                    std::process::exit(1);
                }
                println!("NOT REPRODUCED (the run completed in its child process)");
                std::process::exit(0);
            }
            watchdog::spawn(watchdog::Mode::Replay { prop: rf.property.clone(), signature: rf.signature.clone(), path: path.clone() });
            let res = checks::exec_case(&rf.case);
            println!("replay of {} (property {}, expected signature {})", path, rf.property, rf.signature);
            if let Some(d) = res.replay_diverged {
                println!("note: recorded schedule diverged at step {} (the code under test changed since the recording)", d);
            }
            for l in res.trace.iter().take(60) {
                println!("  trace: {}", l);
            }
            let mut reproduced = false;
            for f in res.findings.iter() {
                println!("  finding [{}] {:?}: {}", f.signature, f.properties, f.detail);
                if f.concerns(&rf.property) && f.signature == rf.signature {
                    reproduced = true;
                }
            }
            if reproduced {
                println!("REPRODUCED signature={}", rf.signature);
                println!("VIOLATION property={} replay={}", rf.property, path);
                std::process::exit(1);
            } else {
                println!("NOT REPRODUCED (no finding with the recorded signature)");
                std::process::exit(0);
            }
        }
        Some("verify-replay") => {
            // Fresh-process verification of a replay file written for a run that did not terminate
            // (the check process re-executes itself into this mode, see watchdog.rs).
            let path = args.get(2).unwrap_or_else(|| usage());
            let rf = report::read_replay(std::path::Path::new(path));
            let exe = std::env::current_exe().expect("current_exe");
            let out = std::process::Command::new(exe).arg("replay").arg(path).output().expect("spawn replay");
            let stdout = String::from_utf8_lossy(&out.stdout).to_string();
            let want = format!("REPRODUCED signature={}", rf.signature);
            let known = report::KnownFindings::load();
            for k in known.findings.iter().filter(|k| k.property == rf.property) {
                println!("KNOWN-FINDING: property={} {} (signature '{}')", rf.property, k.what, k.signature);
            }
            if stdout.lines().any(|l| l.trim() == want.trim()) {
                println!("VIOLATION property={} replay={}", rf.property, path);
                std::process::exit(1);
            }
            eprintln!("HARNESS ERROR: replay of {} in a fresh process did not reproduce the violation: exit={:?}; stdout tail: {}", path, out.status.code(), stdout.lines().rev().take(6).collect::<Vec<_>>().join(" | "));
            std::process::exit(2);
        }
        Some("dump-case") => {
            // rainsim dump-case <PROPERTY> <quick|thorough> <run index> <out file> : write the case
            // the batch would execute at that index as a replay file (for diagnosis)
            let prop = args.get(2).unwrap_or_else(|| usage());
            let tier = if args.get(3).map(|s| s.as_str()) == Some("thorough") { Tier::Thorough } else { Tier::Quick };
            let i: u64 = args.get(4).and_then(|s| s.parse().ok()).unwrap_or_else(|| usage());
            let out = args.get(5).unwrap_or_else(|| usage());
            let spec = checks::spec_for(prop).unwrap_or_else(|| usage());
            let rs = batch::run_seed(batch::env_seed(), spec.prop, i);
            let case = (spec.gen)(rs, i, tier);
            let rf = report::ReplayFile { property: prop.clone(), signature: String::new(), class: String::new(), detail: "dumped case".into(), case, trace: vec![], digest: 0, shrink: None };
            std::fs::write(out, serde_json::to_string_pretty(&rf).unwrap()).expect("write");
            std::process::exit(0);
        }
        Some("exec-case") => {
            // child mode: one case on stdin, its result as one "RESULT <json>" line on stdout
            let mut input = String::new();
            use std::io::Read;
            std::io::stdin().read_to_string(&mut input).expect("stdin");
            let case: exec::Case = serde_json::from_str(&input).unwrap_or_else(|e| {
                eprintln!("HARNESS ERROR: bad case on stdin: {}", e);
                std::process::exit(2);
            });
            watchdog::spawn(watchdog::Mode::Child);
            let res = checks::exec_case(&case);
            println!("RESULT {}", serde_json::to_string(&res).unwrap());
            std::process::exit(0);
        }
        Some("selftest") => {
            // rainsim selftest determinism [n] : execute the first n cases of every claimed check
            // twice in this process (on whichever worker thread picks them up) and print one digest
            // line per case; bin/selftest runs this in several processes at worker counts 1 and
            // 16 and diffs the outputs.
            let n: u64 = args.get(3).and_then(|s| s.parse().ok()).unwrap_or(200);
            let seed = batch::env_seed();
            let props = ["C01", "C02", "C03", "C04", "C05", "C06", "C07", "C08", "C09", "C10", "C11", "C12", "C15", "C16", "C17"];
            let mut lines: Vec<String> = vec![];
            let mut mismatches = 0u64;
            for prop in props {
                let spec = checks::spec_for(prop).unwrap();
                let per_prop = if matches!(prop, "C02" | "C16" | "C08" | "C15") { (n / 10).max(3) } else { n };
                let next = std::sync::atomic::AtomicU64::new(0);
                let out: std::sync::Mutex<Vec<(u64, String)>> = std::sync::Mutex::new(vec![]);
                let bad = std::sync::atomic::AtomicU64::new(0);
                std::thread::scope(|sc| {
                    for _ in 0..batch::workers() {
                        sc.spawn(|| loop {
                            let i = next.fetch_add(1, std::sync::atomic::Ordering::Relaxed);
                            if i >= per_prop {
                                break;
                            }
                            let rs = batch::run_seed(seed, prop, i);
                            let case = (spec.gen)(rs, i, Tier::Quick);
                            let r1 = (spec.exec)(&case);
                            let r2 = (spec.exec)(&case);
                            let sig = |r: &exec::CaseResult| {
                                let mut f: Vec<String> = r.findings.iter().map(|f| f.signature.clone()).collect();
                                f.sort();
                                format!("{:016x} steps={} findings={:?}", r.digest(), r.stats.steps, f)
                            };
                            let (a, b) = (sig(&r1), sig(&r2));
                            if a != b {
                                bad.fetch_add(1, std::sync::atomic::Ordering::Relaxed);
                                eprintln!("NONDETERMINISM {} run {} seed {:016x}: {} vs {}", prop, i, rs, a, b);
                            }
                            out.lock().unwrap().push((i, format!("{} {} {}", prop, i, a)));
                        });
                    }
                });
                let mut v = out.into_inner().unwrap();
                v.sort();
                lines.extend(v.into_iter().map(|x| x.1));
                mismatches += bad.load(std::sync::atomic::Ordering::Relaxed);
            }
            for l in &lines {
                println!("{}", l);
            }
            eprintln!("selftest determinism: {} cases executed twice, {} mismatches", lines.len(), mismatches);
            std::process::exit(if mismatches == 0 { 0 } else { 2 });
        }
        _ => usage(),
    }
}
