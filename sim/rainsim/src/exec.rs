//! One simulated execution: installs the runtime context, runs an engine body inside shuttle
//! under a scheduler the simulator owns, and turns everything that happened (findings, panics,
//! deadlocks, step-bound overruns, statistics, the recorded schedule) into a `CaseResult`.

use crate::plan::Plan;
use crate::sched::{rle_decode, rle_encode, Rle, SchedOut, SchedSpec, SimScheduler, Strategy};
use crate::simfs::{FaultSpec, FileClass};
use crate::world::{panic_signature, Finding};
use raindb_verif_rt as rt;
use serde::{Deserialize, Serialize};
use std::collections::BTreeMap;
use std::panic::{catch_unwind, AssertUnwindSafe};
use std::sync::{Arc, Mutex};

#[derive(Serialize, Deserialize, Clone, Copy, Debug, PartialEq, Eq)]
pub enum Engine {
    Hist,
    Conc,
    Crash,
    IoFault,
    Corrupt,
    LogSim,
    LockRace,
}

/// Everything needed to (re-)execute one run exactly.
#[derive(Serialize, Deserialize, Clone, Debug)]
pub struct Case {
    pub engine: Engine,
    pub run_seed: u64,
    pub plan: Plan,
    pub sched: SchedSpec,
    /// Recorded schedule (present in replay files; used when `sched.strategy == Replay`).
    #[serde(default)]
    pub schedule: Option<Rle>,
    #[serde(default)]
    pub fault: Option<FaultSpec>,
    /// Engine-specific parameters (crash point, corruption offset, ...).
    #[serde(default)]
    pub params: BTreeMap<String, i64>,
    /// Embedded filesystem image for engines whose object under test is an image (C15).
    #[serde(default)]
    pub image: Option<Vec<(String, String)>>,
    #[serde(default)]
    pub max_steps: Option<u64>,
    /// Plan of the logsim engine (C12).
    #[serde(default)]
    pub log_plan: Option<crate::logsim::LogPlan>,
    /// Plan of the lockrace engine (C17).
    #[serde(default)]
    pub lock_plan: Option<crate::lockrace::LockPlan>,
    /// Embedded corrupted image + expectations (C15 replay files).
    #[serde(default)]
    pub corrupt: Option<crate::corrupt::CorruptSpec>,
}

#[derive(Default, Clone, Debug, Serialize, Deserialize)]
#[serde(default)]
pub struct RunStats {
    pub ops: u64,
    pub gets: u64,
    pub scans: u64,
    pub writes: u64,
    pub flushes: u64,
    pub compact_ranges: u64,
    pub reopens: u64,
    pub snap_reads: u64,
    pub iter_steps: u64,
    pub shape_checks: u64,
    pub dir_checks: u64,
    pub bracket_checks: u64,
    pub skipped_ops: u64,
    /// files-per-level vectors observed at shape checks
    pub shapes: Vec<Vec<usize>>,
    pub max_level: usize,
    pub tables_created: u64,
    pub table_reads: u64,
    pub fs_calls: u64,
    pub mut_ops: u64,
    pub steps: u64,
    pub switches: u64,
    pub choice_points: u64,
    pub freezes: u64,
    pub sleeps: u64,
    pub probes: BTreeMap<String, u64>,
    pub lazy_pending_files: u64,
    pub pin_unknown: u64,
    pub fault_fired: u64,
    pub fault_site: Option<String>,
    pub lin_checked: u64,
    pub lin_unchecked: u64,
    pub extra: BTreeMap<String, u64>,
    /// (call kind, file class) of every filesystem call, in order (fault engines use it to
    /// stratify fault positions).
    #[serde(skip)]
    pub call_sites: Vec<(crate::simfs::CallKind, FileClass)>,
}

impl RunStats {
    /// Add the counters of a sub-run (fault engines execute several runs per case).
    pub fn absorb(&mut self, o: &RunStats) {
        self.ops += o.ops;
        self.gets += o.gets;
        self.scans += o.scans;
        self.writes += o.writes;
        self.flushes += o.flushes;
        self.compact_ranges += o.compact_ranges;
        self.reopens += o.reopens;
        self.shape_checks += o.shape_checks;
        self.dir_checks += o.dir_checks;
        self.tables_created += o.tables_created;
        self.table_reads += o.table_reads;
        self.fs_calls += o.fs_calls;
        self.mut_ops += o.mut_ops;
        self.steps += o.steps;
        self.switches += o.switches;
        self.choice_points += o.choice_points;
        self.freezes += o.freezes;
        self.sleeps += o.sleeps;
        self.fault_fired += o.fault_fired;
        for (k, v) in &o.probes {
            *self.probes.entry(k.clone()).or_insert(0) += *v;
        }
        for (k, v) in &o.extra {
            *self.extra.entry(k.clone()).or_insert(0) += *v;
        }
        if let Some(s) = &o.fault_site {
            *self.probes.entry(format!("fault@{}", s)).or_insert(0) += 1;
        }
        for s in &o.shapes {
            if self.shapes.len() < 32 {
                self.shapes.push(s.clone());
            }
        }
        if o.max_level > self.max_level {
            self.max_level = o.max_level;
        }
    }

    pub fn probe(&mut self, name: &str) {
        *self.probes.entry(name.to_string()).or_insert(0) += 1;
    }

    pub fn bump(&mut self, name: &str, n: u64) {
        *self.extra.entry(name.to_string()).or_insert(0) += n;
    }

    /// A run is non-trivial if data reached table files and was read back from them.
    pub fn nontrivial(&self) -> bool {
        self.tables_created > 0 && self.table_reads > 0
    }

    /// Coverage signature: LSM shapes seen, probes hit, context-switch bucket, fault site.
    pub fn signature(&self) -> u64 {
        let mut h: u64 = 0xcbf29ce484222325;
        let mut feed = |v: u64| {
            h ^= v;
            h = h.wrapping_mul(0x100000001b3);
        };
        let mut shapes = self.shapes.clone();
        shapes.sort();
        shapes.dedup();
        for s in &shapes {
            feed(0xAA);
            for n in s {
                feed(*n as u64);
            }
        }
        for (k, _) in &self.probes {
            feed(crate::rng::label(k));
        }
        feed(64 - (self.switches + 1).leading_zeros() as u64);
        feed(0xBB ^ (64 - (self.tables_created + 1).leading_zeros() as u64));
        feed(0xCC ^ self.max_level as u64);
        if let Some(s) = &self.fault_site {
            feed(crate::rng::label(s));
        }
        h
    }
}

#[derive(Default)]
pub struct RunOutput {
    pub findings: Vec<Finding>,
    pub stats: RunStats,
    /// Free-form trace lines for replay reports (bounded).
    pub trace: Vec<String>,
    /// Digest of the client-visible history.
    pub history_digest: u64,
    pub fs_digest: u64,
    pub completed: bool,
    /// A self-contained case reproducing the first finding (engines whose fault point cannot be
    /// re-derived from the seed alone, e.g. corruption of process-dependent manifest bytes).
    pub derived: Option<Box<Case>>,
}

impl RunOutput {
    pub fn note(&mut self, line: String) {
        if self.trace.len() < 400 {
            self.trace.push(line);
        }
    }

    pub fn hist(&mut self, v: u64) {
        self.history_digest ^= v;
        self.history_digest = self.history_digest.wrapping_mul(0x100000001b3).rotate_left(7);
    }
}

pub type Shared = Arc<Mutex<RunOutput>>;

#[derive(Clone, Debug, Serialize, Deserialize)]
pub struct CaseResult {
    pub findings: Vec<Finding>,
    pub stats: RunStats,
    pub trace: Vec<String>,
    pub schedule: Rle,
    pub history_digest: u64,
    pub fs_digest: u64,
    pub sched_digest: u64,
    pub completed: bool,
    /// Reason the shuttle execution ended abnormally, if it did.
    pub abort: Option<String>,
    pub replay_diverged: Option<u64>,
    pub derived: Option<Box<Case>>,
}

impl CaseResult {
    pub fn digest(&self) -> u64 {
        crate::rng::mix2(crate::rng::mix2(self.history_digest, self.fs_digest), self.sched_digest)
    }

    pub fn findings_for<'a>(&'a self, prop: &'a str) -> impl Iterator<Item = &'a Finding> + 'a {
        self.findings.iter().filter(move |f| f.concerns(prop))
    }
}

pub const DEFAULT_MAX_STEPS: u64 = 3_000_000;

fn warm_up_once() {
    use std::sync::Once;
    static ONCE: Once = Once::new();
    ONCE.call_once(|| {
        // Let shuttle install its panic hook, then replace it with the quiet recording hook.
        let mut cfg = shuttle::Config::new();
        cfg.failure_persistence = shuttle::FailurePersistence::None;
        let runner = shuttle::Runner::new(shuttle::scheduler::RoundRobinScheduler::new(1), cfg);
        runner.run(|| {});
        rt::install_panic_hook();
    });
}

/// What the watchdog (`watchdog.rs`) can see of the run an OS thread is executing right now.
pub struct WatchSlot {
    pub case: Arc<Case>,
    pub out: Shared,
    pub progress: Arc<std::sync::atomic::AtomicU64>,
    pub last_value: u64,
    pub last_change: std::time::Instant,
}

pub fn watch_table() -> &'static Mutex<std::collections::HashMap<std::thread::ThreadId, WatchSlot>> {
    static T: std::sync::OnceLock<Mutex<std::collections::HashMap<std::thread::ThreadId, WatchSlot>>> = std::sync::OnceLock::new();
    T.get_or_init(|| Mutex::new(std::collections::HashMap::new()))
}

struct WatchGuard;
impl Drop for WatchGuard {
    fn drop(&mut self) {
        if let Ok(mut t) = watch_table().lock() {
            t.remove(&std::thread::current().id());
        }
    }
}

/// Execute one case. `body` runs as the main task of the simulated execution.
pub fn run_case<F>(case: &Case, body: F) -> CaseResult
where
    F: Fn(&Case, &Shared) + Send + Sync + 'static,
{
    warm_up_once();
    let shared: Shared = Arc::new(Mutex::new(RunOutput::default()));
    let case_arc = Arc::new(case.clone());
    {
        let progress = rt::progress_handle();
        let v = progress.load(std::sync::atomic::Ordering::Relaxed);
        watch_table().lock().unwrap().insert(std::thread::current().id(), WatchSlot { case: Arc::clone(&case_arc), out: Arc::clone(&shared), progress, last_value: v, last_change: std::time::Instant::now() });
    }
    let _watch_guard = WatchGuard;
    let replay = match (&case.sched.strategy, &case.schedule) {
        (Strategy::Replay, Some(r)) => Some(rle_decode(r)),
        _ => None,
    };
    let (scheduler, sched_out) = SimScheduler::new(&case.sched, replay);
    let mut cfg = shuttle::Config::new();
    cfg.stack_size = 512 * 1024;
    cfg.failure_persistence = shuttle::FailurePersistence::None;
    cfg.silence_warnings = true;
    let max_steps = case.max_steps.unwrap_or(DEFAULT_MAX_STEPS);
    cfg.max_steps = shuttle::MaxSteps::FailAfter(max_steps as usize);

    rt::install(rt::RunCtx::default());
    let runner = shuttle::Runner::new(scheduler, cfg);
    let shared2 = Arc::clone(&shared);
    let body = Arc::new(body);
    let result = catch_unwind(AssertUnwindSafe(move || {
        runner.run(move || {
            let body = Arc::clone(&body);
            body(&case_arc, &shared2);
        })
    }));
    let ctx = rt::take();
    let sched: SchedOut = sched_out.lock().unwrap().clone();

    let mut out = std::mem::take(&mut *shared.lock().unwrap());
    let mut abort = None;
    if let Err(p) = result {
        let msg = if let Some(s) = p.downcast_ref::<&'static str>() {
            s.to_string()
        } else if let Some(s) = p.downcast_ref::<String>() {
            s.clone()
        } else {
            "<panic>".to_string()
        };
        abort = Some(msg);
    }

    // Panics of RainDB threads and client calls -> C09 findings (the background worker of an
    // open database must never die; no public call may panic).
    for p in &ctx.panics {
        let sig = panic_signature(&p.message, &p.location);
        let class = if p.thread_name.starts_with("client:") { "client-panic" } else { "bg-panic" };
        // The orphan worker of a *failed* open is exempt (DESIGN §3 C09): it panics on
        // `recv().unwrap()` after its channel sender was dropped.
        if class == "bg-panic" && p.message.contains("RecvError") {
            out.stats.probe("orphan_worker_exit");
            continue;
        }
        let already = out.findings.iter().any(|f| f.class == class && f.signature.ends_with(&sig));
        if !already {
            out.findings.push(Finding {
                properties: vec!["C09".into()],
                class: class.into(),
                signature: format!("{}|{}|{}", class, p.thread_name, sig),
                detail: format!("panic in {} (task {}): {} at {}", p.thread_name, p.task, p.message, p.location),
                seq: p.seq,
                op_index: None,
                fault: None,
            });
        }
    }
    if let Some(msg) = &abort {
        let has_panic_finding = out.findings.iter().any(|f| f.class == "bg-panic" || f.class == "client-panic");
        if msg.starts_with("deadlock!") {
            if !has_panic_finding {
                out.findings.push(Finding {
                    properties: vec!["C09".into()],
                    class: "deadlock".into(),
                    signature: "deadlock".into(),
                    detail: format!("all live tasks blocked: {}", msg),
                    seq: ctx.seq,
                    op_index: None,
                    fault: None,
                });
            }
        } else if msg.starts_with("exceeded max_steps") {
            out.findings.push(Finding {
                properties: vec!["C09-candidate".into()],
                class: "step-bound".into(),
                signature: "step-bound".into(),
                detail: format!("run exceeded {} scheduler steps", max_steps),
                seq: ctx.seq,
                op_index: None,
                fault: None,
            });
        } else if !has_panic_finding {
            // A panic that escaped a task outside any catch (harness bug or shuttle-internal
            // assertion such as re-entrant locking).
            let (m, l) = rt::peek_last_panic().unwrap_or((msg.clone(), "<unknown>".into()));
            let sig = panic_signature(&m, &l);
            let props = if m.contains("tried to acquire a Mutex it already holds") { vec!["C09".to_string()] } else { vec!["HARNESS".to_string()] };
            out.findings.push(Finding {
                properties: props,
                class: "escaped-panic".into(),
                signature: format!("escaped-panic|{}", sig),
                detail: format!("panic escaped the execution: {} at {}", m, l),
                seq: ctx.seq,
                op_index: None,
                fault: None,
            });
        }
    }

    out.stats.steps = sched.steps;
    out.stats.switches = sched.switches;
    out.stats.choice_points = sched.choice_points;
    out.stats.freezes = sched.freezes;
    out.stats.sleeps = ctx.sleeps;
    for (k, v) in &ctx.probes {
        *out.stats.probes.entry((*k).to_string()).or_insert(0) += *v;
    }
    if sched.freezes > 0 {
        out.stats.probe("freeze_fired");
    }
    if sched.align_requests > 0 {
        out.stats.bump("align_requests", sched.align_requests);
        out.stats.bump("align_parked", sched.align_parked);
        out.stats.bump("align_dropped", sched.align_dropped);
        const KIND: [&str; 9] = ["other", "unlocked_enter", "unlocked_exit", "fs", "hook", "sleep", "client", "guard_drop", "db_mutex_released"];
        for (k, n) in sched.align_kinds.iter().enumerate() {
            if *n > 0 {
                out.stats.bump(&format!("align_parked@{}", KIND[k]), *n);
            }
        }
    }
    let mut sched_digest: u64 = 0xcbf29ce484222325;
    for t in &sched.recorded {
        sched_digest ^= *t as u64;
        sched_digest = sched_digest.wrapping_mul(0x100000001b3);
    }

    CaseResult {
        findings: out.findings,
        stats: out.stats,
        trace: out.trace,
        schedule: rle_encode(&sched.recorded),
        history_digest: out.history_digest,
        fs_digest: out.fs_digest,
        sched_digest,
        completed: out.completed,
        abort,
        replay_diverged: sched.replay_diverged,
        derived: out.derived,
    }
}

pub fn class_name(c: FileClass) -> &'static str {
    match c {
        FileClass::Wal => "wal",
        FileClass::Table => "table",
        FileClass::Manifest => "manifest",
        FileClass::Current => "current",
        FileClass::Temp => "temp",
        FileClass::Lock => "lock",
        FileClass::Dir => "dir",
        FileClass::Other => "other",
    }
}
