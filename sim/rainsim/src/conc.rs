//! `conc` engine: several client tasks + the real background thread on one database. Records an
//! invoke/return history stamped with the global event sequence number and checks it afterwards:
//! per-key register linearizability (C05), batch atomicity (C06), snapshot/iterator stability under
//! concurrent writers (C03), dumps during compaction (C07), pinned files (C11), and - through
//! shuttle - deadlocks, re-entrant locks and panics (C09).

use crate::exec::{Case, RunOutput, Shared};
use crate::hist::fold_fs_stats;
use crate::lin::{check_register, LinResult, RegEvent, RegOp};
use crate::plan::{tag_of, Op, Plan, Val};
use crate::simfs::{classify, FileClass, MutOp, SimFs};
use crate::world::*;
use raindb::db::DatabaseDescriptor;
use raindb::{Batch, RainDBError, RainDbIterator, ReadOptions, Snapshot, WriteOptions, DB};
use raindb_verif_rt as rt;
use std::collections::{BTreeMap, BTreeSet};
use std::sync::{Arc, Mutex};

#[derive(Clone, Debug)]
enum EvKind {
    /// (key index, Some(tag)=put / None=delete)
    Write(Vec<(usize, Option<u32>)>),
    /// key index, observed Some(tag)/None=absent
    Read(usize, Option<u32>),
    /// What a snapshot or an iterator shows for a key (from its first full scan), as a read whose
    /// interval is the call that CREATED the snapshot / iterator: the view is the state at one
    /// instant inside that call, so per key the value must be one the register could hold then.
    ViewRead(usize, Option<u32>),
}

#[derive(Clone, Debug)]
struct Event {
    client: usize,
    idx: usize,
    inv: u64,
    ret: u64,
    kind: EvKind,
}

#[derive(Default)]
struct ConcLog {
    events: Vec<Event>,
    /// (start seq, end seq, pinned table numbers) of iterators whose pinned set is known
    pins: Vec<(u64, u64, BTreeSet<u64>)>,
}

fn with_out<R>(out: &Shared, f: impl FnOnce(&mut RunOutput) -> R) -> R {
    f(&mut out.lock().unwrap())
}

fn push_finding(out: &Shared, f: Finding) {
    with_out(out, |o| {
        if o.findings.len() < 50 {
            o.findings.push(f);
        }
    });
}

fn read_error(out: &Shared, props: &[&str], what: &str, e: &RainDBError, idx: usize) {
    let mut props: Vec<&str> = props.to_vec();
    if format!("{:?}", e).contains("NotFound") && !props.contains(&"C11") {
        props.push("C11");
    }
    push_finding(out, Finding::new(&props, "read-error", &format!("{}|{}", what, err_signature(e)), format!("{} failed with {:?} in a fault-free run", what, e), Some(idx)));
}

type Dump = Vec<(Vec<u8>, Vec<u8>)>;

struct SnapSlot {
    snap: Snapshot,
    first: Dump,
}

struct IterSlotC {
    it: Box<dyn RainDbIterator<Key = Vec<u8>, Error = RainDBError>>,
    first: Option<Dump>,
    pin: Option<(u64, BTreeSet<u64>)>,
    /// (event number before, after the new_iterator call; op index)
    open_call: (u64, u64, usize),
}

fn dump_iter(it: &mut dyn RainDbIterator<Key = Vec<u8>, Error = RainDBError>) -> Result<Dump, RainDBError> {
    let mut out = vec![];
    it.seek_to_first()?;
    while it.is_valid() {
        let (k, v) = it.current().unwrap();
        out.push((k.clone(), v.clone()));
        it.next();
    }
    if let Some(e) = it.status() {
        return Err(e);
    }
    Ok(out)
}

/// Random cursor movements on an iterator whose complete contents are known (`view`, sorted): after
/// every step validity and the current pair must be what a cursor over `view` would show. A step
/// that reports an error through `status()` ends the program (read errors are judged elsewhere).
fn cursor_program(it: &mut dyn RainDbIterator<Key = Vec<u8>, Error = RainDBError>, view: &Dump, seed: u64) -> Option<String> {
    let mut rng = crate::rng::Rng::new(seed);
    let n = view.len();
    // model position: None = invalid
    let mut pos: Option<usize>;
    let mut trace: Vec<String> = vec![];
    let steps = 6 + rng.below(14);
    // start with a seek
    let i0 = rng.usize_below(n);
    if it.seek(&view[i0].0).is_err() {
        return None;
    }
    pos = Some(i0);
    trace.push(format!("seek(#{})", i0));
    for _ in 0..steps {
        if it.status().is_some() {
            return None;
        }
        let valid = it.is_valid();
        let cur = if valid { it.current().map(|(k, v)| (k.clone(), v.clone())) } else { None };
        let want = pos.map(|p| view[p].clone());
        if cur != want {
            return Some(format!("after {} the iterator is at {} but a cursor over its own first scan ({} pairs) is at {}", trace.join(" "), cur.as_ref().map(|(k, _)| show_key(k)).unwrap_or("<invalid>".into()), n, want.as_ref().map(|(k, _)| show_key(k)).unwrap_or("<invalid>".into())));
        }
        match rng.below(6) {
            0 => {
                let i = rng.usize_below(n);
                if it.seek(&view[i].0).is_err() {
                    return None;
                }
                pos = Some(i);
                trace.push(format!("seek(#{})", i));
            }
            1 => {
                // a key right after an existing one: lands on the next pair (or nowhere)
                let i = rng.usize_below(n);
                let mut t = view[i].0.clone();
                t.push(0);
                if it.seek(&t).is_err() {
                    return None;
                }
                pos = if i + 1 < n { Some(i + 1) } else { None };
                trace.push(format!("seek(#{}+0x00)", i));
            }
            2 => {
                if it.seek_to_first().is_err() {
                    return None;
                }
                pos = Some(0);
                trace.push("first".into());
            }
            3 => {
                if it.seek_to_last().is_err() {
                    return None;
                }
                pos = Some(n - 1);
                trace.push("last".into());
            }
            4 => {
                if let Some(p) = pos {
                    it.next();
                    pos = if p + 1 < n { Some(p + 1) } else { None };
                    trace.push("next".into());
                }
            }
            _ => {
                if let Some(p) = pos {
                    it.prev();
                    pos = if p > 0 { Some(p - 1) } else { None };
                    trace.push("prev".into());
                }
            }
        }
    }
    None
}

/// Keys that exactly one client writes (besides the single-client setup phase), with the states
/// that key set goes through: the state after the setup and after each of the owner's writes, in
/// program order. The owner's writes are sequential, so at every instant the database restricted
/// to these keys is one of these states - provided batches are atomic and views are taken at one
/// instant. Values are compared by tag; `None` = absent.
struct Owned {
    client: usize,
    keys: Vec<usize>,
    states: Vec<Vec<Option<u32>>>,
}

fn owned_sets(plan: &Plan) -> Vec<Owned> {
    let nk = plan.keys.len();
    fn writes_of(ops: &[Op], nk: usize) -> Vec<Vec<(usize, Option<&Val>)>> {
        ops.iter()
            .filter_map(|o| match o {
                Op::Put { k, v } => Some(vec![(*k % nk, Some(v))]),
                Op::Delete { k } => Some(vec![(*k % nk, None)]),
                Op::Batch { items } => Some(items.iter().map(|(k, v)| (*k % nk, v.as_ref())).collect()),
                _ => None,
            })
            .collect()
    }
    let per_client: Vec<Vec<Vec<(usize, Option<&Val>)>>> = plan.clients.iter().map(|c| writes_of(c, nk)).collect();
    let mut writers: BTreeMap<usize, BTreeSet<usize>> = BTreeMap::new();
    for (c, ws) in per_client.iter().enumerate() {
        for w in ws {
            for (k, _) in w {
                writers.entry(*k).or_default().insert(c);
            }
        }
    }
    // a value without a tag (the empty value) cannot be compared: such keys are left out
    let untagged = |v: Option<&Val>| v.map(|v| v.len == 0).unwrap_or(false);
    let mut setup: BTreeMap<usize, Option<u32>> = BTreeMap::new();
    let mut bad: BTreeSet<usize> = BTreeSet::new();
    for w in writes_of(&plan.ops, nk) {
        for (k, v) in w {
            if untagged(v) {
                bad.insert(k);
            }
            setup.insert(k, v.map(|v| v.tag));
        }
    }
    let mut out = vec![];
    for (c, ws) in per_client.iter().enumerate() {
        for w in ws {
            for (k, v) in w {
                if untagged(*v) {
                    bad.insert(*k);
                }
            }
        }
        let keys: Vec<usize> = writers.iter().filter(|(k, s)| s.len() == 1 && s.contains(&c) && !bad.contains(*k)).map(|(k, _)| *k).collect();
        if keys.len() < 2 || ws.len() > 200 {
            continue;
        }
        let mut cur: Vec<Option<u32>> = keys.iter().map(|k| setup.get(k).copied().flatten()).collect();
        let mut states = vec![cur.clone()];
        for w in ws {
            for (k, v) in w {
                if let Some(i) = keys.iter().position(|x| x == k) {
                    cur[i] = v.map(|v| v.tag);
                }
            }
            if states.last() != Some(&cur) {
                states.push(cur.clone());
            }
        }
        out.push(Owned { client: c, keys, states });
    }
    out
}

/// Check that every key group carries one tag in a consistent read (C06), and that the keys owned
/// by one writer show a state that exists between two of its writes.
fn check_groups(out: &Shared, plan: &Plan, dump: &Dump, how: &str, idx: usize, groups: &[Vec<usize>]) {
    with_out(out, |o| o.stats.bump("group_reads_checked", groups.len() as u64));
    let m: BTreeMap<&[u8], &[u8]> = dump.iter().map(|(k, v)| (k.as_slice(), v.as_slice())).collect();
    for o in owned_sets(plan) {
        let seen: Vec<Option<u32>> = o.keys.iter().map(|k| m.get(plan.keys[*k].as_slice()).and_then(|v| tag_of(v))).collect();
        with_out(out, |x| x.stats.bump("owned_key_set_reads_checked", 1));
        if !o.states.contains(&seen) {
            push_finding(
                out,
                Finding::new(&["C06", "C03"], "state-between-batches", how, format!("{}: keys {:?} are written by client {} only, one write after the other, but the read shows {:?}, which is not the state after any of its writes (the {} states that exist: {:?})", how, o.keys, o.client, seen, o.states.len(), o.states.iter().take(12).collect::<Vec<_>>()), Some(idx)),
            );
            return;
        }
    }
    for g in groups {
        let tags: Vec<Option<u32>> = g.iter().map(|k| m.get(plan.keys[*k % plan.keys.len()].as_slice()).and_then(|v| tag_of(v))).collect();
        if tags.windows(2).any(|w| w[0] != w[1]) {
            push_finding(
                out,
                Finding::new(&["C06"], "partial-batch", how, format!("{} observed part of a batch: keys {:?} carry tags {:?} (every batch writes one tag to the whole group)", how, g, tags), Some(idx)),
            );
            return;
        }
    }
}

fn groups_of(plan: &Plan) -> Vec<Vec<usize>> {
    // a group = the key set of a multi-key batch whose items all carry the same tag / are all deletes
    let mut groups: BTreeSet<Vec<usize>> = BTreeSet::new();
    let mut visit = |ops: &Vec<Op>| {
        for o in ops {
            if let Op::Batch { items } = o {
                if items.len() >= 2 {
                    let same = items.windows(2).all(|w| w[0].1.as_ref().map(|v| v.tag) == w[1].1.as_ref().map(|v| v.tag));
                    if same {
                        let mut g: Vec<usize> = items.iter().map(|(k, _)| *k).collect();
                        g.sort_unstable();
                        g.dedup();
                        if g.len() >= 2 {
                            groups.insert(g);
                        }
                    }
                }
            }
        }
    };
    visit(&plan.ops);
    for c in &plan.clients {
        visit(c);
    }
    // only groups that never share a key with a differently shaped write are checkable
    let mut writes_per_key: BTreeMap<usize, BTreeSet<Vec<usize>>> = BTreeMap::new();
    let mut visit2 = |ops: &Vec<Op>| {
        for o in ops {
            match o {
                Op::Put { k, .. } | Op::Delete { k } => {
                    writes_per_key.entry(*k).or_default().insert(vec![*k]);
                }
                Op::Batch { items } => {
                    let mut g: Vec<usize> = items.iter().map(|(k, _)| *k).collect();
                    g.sort_unstable();
                    g.dedup();
                    for (k, _) in items {
                        writes_per_key.entry(*k).or_default().insert(g.clone());
                    }
                }
                _ => {}
            }
        }
    };
    visit2(&plan.ops);
    for c in &plan.clients {
        visit2(c);
    }
    groups.into_iter().filter(|g| g.iter().all(|k| writes_per_key.get(k).map(|s| s.len() == 1 && s.contains(g)).unwrap_or(false))).collect()
}

fn log_view(log: &Arc<Mutex<ConcLog>>, plan: &Plan, client: usize, idx: usize, inv: u64, ret: u64, dump: &Dump) {
    let m: BTreeMap<&Vec<u8>, &Vec<u8>> = dump.iter().map(|(k, v)| (k, v)).collect();
    let mut g = log.lock().unwrap();
    for (ki, k) in plan.keys.iter().enumerate() {
        let tag = m.get(k).and_then(|v| tag_of(v));
        if m.contains_key(k) && tag.is_none() {
            // a value without a tag (the empty value) is not attributable: no event for this key
            continue;
        }
        g.events.push(Event { client, idx, inv, ret, kind: EvKind::ViewRead(ki, tag) });
    }
}

fn client_body(client: usize, plan: Arc<Plan>, db: Arc<DB>, out: Shared, log: Arc<Mutex<ConcLog>>, groups: Arc<Vec<Vec<usize>>>, part: (usize, usize)) {
    let ops = &plan.clients[client];
    let key = |k: usize| plan.keys[k % plan.keys.len()].clone();
    let mut snaps: BTreeMap<usize, SnapSlot> = BTreeMap::new();
    let mut iters: BTreeMap<usize, IterSlotC> = BTreeMap::new();
    let mut dead = false;
    for (idx, op) in ops.iter().enumerate().skip(part.0).take(part.1.saturating_sub(part.0)) {
        if dead || rt::is_poisoned() {
            break;
        }
        rt::sched_point(rt::YieldKind::Client);
        with_out(&out, |o| {
            o.stats.ops += 1;
            o.hist(((client as u64) << 32) | idx as u64);
        });
        match op {
            Op::Align { mask, nth } => rt::align_request(*mask, *nth),
            Op::Put { .. } | Op::Delete { .. } | Op::Batch { .. } => {
                let mut batch = Batch::new();
                let mut items: Vec<(usize, Option<u32>)> = vec![];
                match op {
                    Op::Put { k, v } => {
                        batch.add_put(key(*k), v.bytes());
                        items.push((*k % plan.keys.len(), Some(v.tag)));
                    }
                    Op::Delete { k } => {
                        batch.add_delete(key(*k));
                        items.push((*k % plan.keys.len(), None));
                    }
                    Op::Batch { items: its } => {
                        for (k, v) in its {
                            match v {
                                Some(v) => {
                                    batch.add_put(key(*k), v.bytes());
                                    items.push((*k % plan.keys.len(), Some(v.tag)));
                                }
                                None => {
                                    batch.add_delete(key(*k));
                                    items.push((*k % plan.keys.len(), None));
                                }
                            }
                        }
                    }
                    _ => unreachable!(),
                }
                let inv = rt::next_seq();
                let r = call("apply", || db.apply(wopts(), batch));
                let ret = rt::next_seq();
                with_out(&out, |o| o.stats.writes += 1);
                match r {
                    Called::Ok(Ok(())) => log.lock().unwrap().events.push(Event { client, idx, inv, ret, kind: EvKind::Write(items) }),
                    Called::Ok(Err(e)) => {
                        push_finding(&out, Finding::new(&["C05"], "op-error", &format!("apply|{}", err_signature(&e)), format!("client {} write returned {:?} in a fault-free run", client, e), Some(idx)));
                        dead = true;
                    }
                    Called::Panicked { .. } => dead = true,
                }
            }
            Op::Get { k } | Op::GetMany { k, .. } => {
                let n = if let Op::GetMany { n, .. } = op { *n } else { 1 };
                let kk = key(*k);
                for _ in 0..n {
                    let inv = rt::next_seq();
                    let r = call("get", || get(&db, None, &kk));
                    let ret = rt::next_seq();
                    with_out(&out, |o| o.stats.gets += 1);
                    match r {
                        Called::Ok(Ok(v)) => {
                            let tag = v.as_ref().and_then(|v| tag_of(v));
                            if v.is_some() && tag.is_none() {
                                push_finding(&out, Finding::new(&["C05"], "garbage-read", "", format!("get({}) returned bytes that no write produced: {}", show_key(&kk), show_opt(&v)), Some(idx)));
                            }
                            with_out(&out, |o| o.hist(tag.unwrap_or(0) as u64 + 1));
                            log.lock().unwrap().events.push(Event { client, idx, inv, ret, kind: EvKind::Read(*k % plan.keys.len(), tag) });
                        }
                        Called::Ok(Err(e)) => {
                            read_error(&out, &["C05"], "get", &e, idx);
                            dead = true;
                            break;
                        }
                        Called::Panicked { .. } => {
                            dead = true;
                            break;
                        }
                    }
                }
            }
            Op::Snap { slot } => {
                if snaps.contains_key(slot) {
                    continue;
                }
                let snap_inv = rt::next_seq();
                match call("get_snapshot", || db.get_snapshot()) {
                    Called::Ok(s) => {
                        let snap_ret = rt::next_seq();
                        // dump immediately: this is the state the snapshot must keep showing
                        match call("scan@snapshot", || scan_forward(&db, Some(s.clone()))) {
                            Called::Ok(Ok(first)) => {
                                log_view(&log, &plan, client, idx, snap_inv, snap_ret, &first);
                                check_groups(&out, &plan, &first, "snapshot scan", idx, &groups);
                                with_out(&out, |o| o.stats.snap_reads += 1);
                                snaps.insert(*slot, SnapSlot { snap: s, first });
                            }
                            Called::Ok(Err(ScanError::Err(e))) => {
                                read_error(&out, &["C03"], "scan@snapshot", &e, idx);
                                let _ = call("release_snapshot", || db.release_snapshot(s));
                            }
                            Called::Ok(Err(ScanError::Disorder(d))) => {
                                push_finding(&out, Finding::new(&["C04"], "scan-disorder", "snapshot", d, Some(idx)));
                                let _ = call("release_snapshot", || db.release_snapshot(s));
                            }
                            Called::Panicked { .. } => dead = true,
                        }
                    }
                    Called::Panicked { .. } => dead = true,
                }
            }
            Op::SnapDump { slot } => {
                let Some(s) = snaps.get(slot) else { continue };
                let snap = s.snap.clone();
                let first = s.first.clone();
                with_out(&out, |o| o.stats.snap_reads += 2);
                match call("scan@snapshot", || scan_forward(&db, Some(snap.clone()))) {
                    Called::Ok(Ok(again)) => {
                        if again != first {
                            let want: Kv = first.iter().cloned().collect();
                            let d = diff_kv(&again, &want).unwrap_or_else(|| "order differs".into());
                            push_finding(&out, Finding::new(&["C03"], "snapshot-unstable", "scan", format!("client {}: two scans of the same snapshot differ: {}", client, d), Some(idx)));
                        }
                    }
                    Called::Ok(Err(ScanError::Err(e))) => read_error(&out, &["C03"], "scan@snapshot", &e, idx),
                    Called::Ok(Err(ScanError::Disorder(d))) => push_finding(&out, Finding::new(&["C04"], "scan-disorder", "snapshot", d, Some(idx))),
                    Called::Panicked { .. } => {
                        dead = true;
                        continue;
                    }
                }
                // get and scan agree at the same snapshot
                let fm: Kv = first.iter().cloned().collect();
                for k in &plan.keys {
                    match call("get@snapshot", || get(&db, Some(snap.clone()), k)) {
                        Called::Ok(Ok(v)) => {
                            if v != fm.get(k).cloned() {
                                push_finding(&out, Finding::new(&["C03"], "get-scan-disagree", "", format!("client {}: at one snapshot get({}) = {} but its first scan showed {}", client, show_key(k), show_opt(&v), show_opt(&fm.get(k).cloned())), Some(idx)));
                                break;
                            }
                        }
                        Called::Ok(Err(e)) => {
                            read_error(&out, &["C03"], "get@snapshot", &e, idx);
                            break;
                        }
                        Called::Panicked { .. } => {
                            dead = true;
                            break;
                        }
                    }
                }
            }
            Op::GetSnap { slot, k } => {
                let Some(s) = snaps.get(slot) else { continue };
                let kk = key(*k);
                let fm: Kv = s.first.iter().cloned().collect();
                let snap = s.snap.clone();
                with_out(&out, |o| o.stats.snap_reads += 1);
                match call("get@snapshot", || get(&db, Some(snap), &kk)) {
                    Called::Ok(Ok(v)) => {
                        if v != fm.get(&kk).cloned() {
                            push_finding(&out, Finding::new(&["C03"], "get-scan-disagree", "", format!("client {}: at one snapshot get({}) = {} but its first scan showed {}", client, show_key(&kk), show_opt(&v), show_opt(&fm.get(&kk).cloned())), Some(idx)));
                        }
                    }
                    Called::Ok(Err(e)) => read_error(&out, &["C03"], "get@snapshot", &e, idx),
                    Called::Panicked { .. } => dead = true,
                }
            }
            Op::Release { slot } => {
                if let Some(s) = snaps.remove(slot) {
                    if let Called::Panicked { .. } = call("release_snapshot", || db.release_snapshot(s.snap)) {
                        dead = true;
                    }
                }
            }
            Op::IterOpen { slot, .. } => {
                if iters.contains_key(slot) {
                    continue;
                }
                let before: Option<BTreeSet<u64>> = match call("shape", || db.verif_shape()) {
                    Called::Ok(s) => {
                        // the reported shape is well formed at any moment (C10), also mid-compaction
                        let mut fs = vec![];
                        crate::hist::check_shape_structure(&s, &mut fs, "concurrent run, writers and background thread active");
                        with_out(&out, |o| o.stats.bump("shape_structure_checks_any_time", 1));
                        for f in fs {
                            push_finding(&out, f);
                        }
                        Some(s.files.iter().map(|f| f.number).collect())
                    }
                    Called::Panicked { .. } => None,
                };
                let start = rt::next_seq();
                match call("new_iterator", || db.new_iterator(ReadOptions::default())) {
                    Called::Ok(Ok(it)) => {
                        let after: Option<BTreeSet<u64>> = match call("shape", || db.verif_shape()) {
                            Called::Ok(s) => Some(s.files.iter().map(|f| f.number).collect()),
                            Called::Panicked { .. } => None,
                        };
                        let pin = match (before, after) {
                            (Some(b), Some(a)) if a == b => Some((start, a)),
                            _ => {
                                with_out(&out, |o| o.stats.pin_unknown += 1);
                                None
                            }
                        };
                        let opened = rt::next_seq();
                        iters.insert(*slot, IterSlotC { it: Box::new(it), first: None, pin, open_call: (start, opened, idx) });
                    }
                    Called::Ok(Err(e)) => read_error(&out, &["C03"], "new_iterator", &e, idx),
                    Called::Panicked { .. } => dead = true,
                }
            }
            Op::IterDump { slot } => {
                let Some(s) = iters.get_mut(slot) else { continue };
                let it = &mut s.it;
                with_out(&out, |o| o.stats.snap_reads += 1);
                match call("iterator-dump", || dump_iter(it.as_mut())) {
                    Called::Ok(Ok(d)) => {
                        check_groups(&out, &plan, &d, "iterator scan", idx, &groups);
                        match &s.first {
                            None => {
                                log_view(&log, &plan, client, s.open_call.2, s.open_call.0, s.open_call.1, &d);
                                if !d.is_empty() {
                                    let seed = crate::rng::mix2(((client as u64) << 32) | idx as u64, d.len() as u64);
                                    let it = &mut s.it;
                                    match call("iterator-cursor-program", || cursor_program(it.as_mut(), &d, seed)) {
                                        Called::Ok(Some(msg)) => push_finding(&out, Finding::new(&["C04", "C03"], "cursor-mismatch", "concurrent", format!("client {}: {}", client, msg), Some(idx))),
                                        Called::Ok(None) => with_out(&out, |o| o.stats.bump("concurrent_cursor_programs", 1)),
                                        Called::Panicked { .. } => dead = true,
                                    }
                                }
                                s.first = Some(d)
                            }
                            Some(first) => {
                                if *first != d {
                                    let want: Kv = first.iter().cloned().collect();
                                    let dd = diff_kv(&d, &want).unwrap_or_else(|| "order differs".into());
                                    push_finding(&out, Finding::new(&["C03"], "iterator-unstable", "", format!("client {}: two full scans of one iterator differ: {}", client, dd), Some(idx)));
                                } else if !first.is_empty() {
                                    // a cursor program against the iterator's own first scan (its view
                                    // never changes) while writers, flushes, compactions and file
                                    // deletions go on underneath (C04 under concurrency)
                                    let first = first.clone();
                                    let seed = crate::rng::mix2(((client as u64) << 32) | idx as u64, first.len() as u64);
                                    let it = &mut s.it;
                                    match call("iterator-cursor-program", || cursor_program(it.as_mut(), &first, seed)) {
                                        Called::Ok(Some(msg)) => push_finding(&out, Finding::new(&["C04", "C03"], "cursor-mismatch", "concurrent", format!("client {}: {}", client, msg), Some(idx))),
                                        Called::Ok(None) => with_out(&out, |o| o.stats.bump("concurrent_cursor_programs", 1)),
                                        Called::Panicked { .. } => dead = true,
                                    }
                                }
                            }
                        }
                    }
                    Called::Ok(Err(e)) => read_error(&out, &["C03"], "iterator-dump", &e, idx),
                    Called::Panicked { .. } => dead = true,
                }
            }
            Op::IterClose { slot } => {
                if let Some(s) = iters.remove(slot) {
                    let end = rt::next_seq();
                    if let Some((start, set)) = s.pin.clone() {
                        log.lock().unwrap().pins.push((start, end, set));
                    }
                    if let Called::Panicked { .. } = call("iterator-drop", move || drop(s)) {
                        dead = true;
                    }
                }
            }
            Op::CompactRange { start, end } => {
                let (s, e) = (start.clone(), end.clone());
                with_out(&out, |o| o.stats.compact_ranges += 1);
                if let Called::Panicked { .. } = call("compact_range", || db.compact_range(s.as_deref()..e.as_deref())) {
                    dead = true;
                }
            }
            Op::Flush => {
                with_out(&out, |o| o.stats.flushes += 1);
                match call("flush", || db.verif_flush()) {
                    Called::Ok(Ok(())) => {}
                    Called::Ok(Err(e)) => {
                        push_finding(&out, Finding::new(&["C09"], "bg-error", &err_signature(&e), format!("forced flush reported {:?} in a fault-free run", e), Some(idx)));
                        dead = true;
                    }
                    Called::Panicked { .. } => dead = true,
                }
            }
            Op::Quiesce => {
                if let Called::Panicked { .. } = call("quiesce", || db.verif_wait_quiescent()) {
                    dead = true;
                }
            }
            Op::Descriptor { kind } => {
                let d = match kind % 9 {
                    7 => DatabaseDescriptor::Stats,
                    8 => DatabaseDescriptor::SSTables,
                    l => DatabaseDescriptor::NumFilesAtLevel(l as usize),
                };
                if let Called::Panicked { .. } = call("get_descriptor", || db.get_descriptor(d)) {
                    dead = true;
                }
            }
            _ => {
                with_out(&out, |o| o.stats.skipped_ops += 1);
            }
        }
    }
    // release everything this client still holds (an iterator outliving the DB is a usage error)
    for (_, s) in std::mem::take(&mut iters) {
        let end = rt::next_seq();
        if let Some((start, set)) = s.pin.clone() {
            log.lock().unwrap().pins.push((start, end, set));
        }
        let _ = call("iterator-drop", move || drop(s));
    }
    for (_, s) in std::mem::take(&mut snaps) {
        let _ = call("release_snapshot", || db.release_snapshot(s.snap));
    }
    drop(db);
}

pub fn body(case: &Case, out: &Shared) {
    let plan = Arc::new(case.plan.clone());
    let fs = Arc::new(SimFs::new());
    let opts = options(fs.clone(), &plan.opens[0], true);
    let db = match call("open", || DB::open(opts)) {
        Called::Ok(Ok(db)) => db,
        Called::Ok(Err(e)) => {
            push_finding(out, Finding::new(&["C01"], "open-failed", &err_signature(&e), format!("DB::open returned {:?}", e), None));
            return;
        }
        Called::Panicked { .. } => return,
    };
    // setup phase: single client, model kept
    let mut model: BTreeMap<usize, Option<u32>> = BTreeMap::new();
    let nkeys = plan.keys.len();
    let mut ok = true;
    for (idx, op) in plan.ops.iter().enumerate() {
        let r = match op {
            Op::Put { k, v } => {
                model.insert(*k % nkeys, Some(v.tag));
                call("put", || db.put(wopts(), plan.keys[*k % nkeys].clone(), v.bytes()))
            }
            Op::Delete { k } => {
                model.insert(*k % nkeys, None);
                call("delete", || db.delete(wopts(), plan.keys[*k % nkeys].clone()))
            }
            Op::Batch { items } => {
                let mut b = Batch::new();
                for (k, v) in items {
                    match v {
                        Some(v) => {
                            b.add_put(plan.keys[*k % nkeys].clone(), v.bytes());
                            model.insert(*k % nkeys, Some(v.tag));
                        }
                        None => {
                            b.add_delete(plan.keys[*k % nkeys].clone());
                            model.insert(*k % nkeys, None);
                        }
                    }
                }
                call("apply", || db.apply(wopts(), b))
            }
            Op::Flush => call("flush", || db.verif_flush()),
            _ => Called::Ok(Ok(())),
        };
        match r {
            Called::Ok(Ok(())) => {}
            Called::Ok(Err(e)) => {
                push_finding(out, Finding::new(&["C01"], "op-error", &err_signature(&e), format!("setup op {} returned {:?}", idx, e), Some(idx)));
                ok = false;
                break;
            }
            Called::Panicked { .. } => {
                ok = false;
                break;
            }
        }
    }
    let mut db = Arc::new(db);
    let log: Arc<Mutex<ConcLog>> = Arc::new(Mutex::new(ConcLog::default()));
    let groups = Arc::new(groups_of(&plan));
    // In a fifth of the runs ("reopen_split") every client executes the first half of its program,
    // the database is closed (whatever background work is in flight) and reopened on the same
    // files, and the clients go on with the second half: recovery sits in the middle of the
    // concurrent history, whose oracles do not care (no operation is in flight across the reopen).
    let split = case.params.get("reopen_split").copied().unwrap_or(0) != 0;
    let parts: Vec<u8> = if split { vec![0, 1] } else { vec![2] };
    for part in parts {
        if !ok || rt::is_poisoned() {
            break;
        }
        if part == 1 {
            match Arc::try_unwrap(db) {
                Ok(d) => {
                    let _ = call("drop", move || drop(d));
                }
                Err(_) => {
                    // a client leaked its handle (only after a panic): the run's verdict is decided
                    ok = false;
                    return;
                }
            }
            let opts = options(fs.clone(), &plan.opens[0], false);
            match call("open", || DB::open(opts)) {
                Called::Ok(Ok(d)) => {
                    db = Arc::new(d);
                    with_out(out, |o| o.stats.bump("reopen_in_the_middle_of_a_concurrent_run", 1));
                }
                Called::Ok(Err(e)) => {
                    push_finding(out, Finding::new(&["C01", "C02"], "reopen-failed", &err_signature(&e), format!("close + reopen between two halves of a concurrent run: DB::open returned {:?}", e), None));
                    return;
                }
                Called::Panicked { .. } => return,
            }
        }
        let mut handles = vec![];
        for c in 0..plan.clients.len() {
            let n = plan.clients[c].len();
            let range = match part {
                0 => (0, n / 2),
                1 => (n / 2, n),
                _ => (0, n),
            };
            let (plan2, db2, out2, log2, groups2) = (Arc::clone(&plan), Arc::clone(&db), Arc::clone(out), Arc::clone(&log), Arc::clone(&groups));
            let h = rt::thread::Builder::new().name(format!("client-{}", c)).spawn(move || client_body(c, plan2, db2, out2, log2, groups2, range)).expect("spawn client");
            handles.push(h);
        }
        for h in handles {
            let _ = h.join();
        }
    }
    let healthy = ok && !rt::is_poisoned();

    // tail phase
    let mut final_state: Option<Kv> = None;
    if healthy {
        let quiesce_first = case.params.get("quiesce_before_final").copied().unwrap_or(1) != 0;
        if quiesce_first {
            let _ = call("quiesce", || db.verif_wait_quiescent());
        }
        // close while the background thread is still busy: no final reads that would give it time
        let early_close = !quiesce_first && case.params.get("early_close").copied().unwrap_or(0) != 0;
        if !rt::is_poisoned() && !early_close {
            match call("scan", || scan_forward(&db, None)) {
                Called::Ok(Ok(d)) => {
                    check_groups(out, &plan, &d, "final scan", usize::MAX, &groups);
                    final_state = Some(d.into_iter().collect());
                }
                Called::Ok(Err(ScanError::Err(e))) => read_error(out, &["C05"], "final scan", &e, usize::MAX),
                Called::Ok(Err(ScanError::Disorder(d))) => push_finding(out, Finding::new(&["C04"], "scan-disorder", "final", d, None)),
                Called::Panicked { .. } => {}
            }
        }
        // C07 concurrent clause: readers dump while the database compacts; writers are idle
        let readers = case.params.get("tail_readers").copied().unwrap_or(0) as usize;
        let dumps = case.params.get("tail_dumps").copied().unwrap_or(0) as usize;
        if readers > 0 && final_state.is_some() && !rt::is_poisoned() {
            let want = Arc::new(final_state.clone().unwrap());
            let mut hs = vec![];
            for r in 0..readers {
                let (db2, out2, want2) = (Arc::clone(&db), Arc::clone(out), Arc::clone(&want));
                let h = rt::thread::Builder::new()
                    .name(format!("reader-{}", r))
                    .spawn(move || {
                        for i in 0..dumps {
                            if rt::is_poisoned() {
                                break;
                            }
                            rt::sched_point(rt::YieldKind::Client);
                            let res = if (i + r) % 2 == 0 { call("scan", || scan_forward(&db2, None)) } else { call("scan-backward", || scan_backward(&db2, None)) };
                            with_out(&out2, |o| o.stats.scans += 1);
                            match res {
                                Called::Ok(Ok(d)) => {
                                    if let Some(diff) = diff_kv(&d, &want2) {
                                        push_finding(&out2, Finding::new(&["C07"], "contents-changed", "concurrent-dump", format!("reader {} dump #{} taken while compaction runs (no writer active) differs from the state before: {}", r, i, diff), None));
                                        break;
                                    }
                                }
                                Called::Ok(Err(ScanError::Err(e))) => {
                                    read_error(&out2, &["C07"], "scan during compaction", &e, usize::MAX);
                                    break;
                                }
                                Called::Ok(Err(ScanError::Disorder(d))) => {
                                    push_finding(&out2, Finding::new(&["C04"], "scan-disorder", "concurrent", d, None));
                                    break;
                                }
                                Called::Panicked { .. } => break,
                            }
                        }
                        drop(db2);
                    })
                    .expect("spawn reader");
                hs.push(h);
            }
            for (i, op) in plan.tail.iter().enumerate() {
                if rt::is_poisoned() {
                    break;
                }
                match op {
                    Op::CompactRange { start, end } => {
                        let (s, e) = (start.clone(), end.clone());
                        with_out(out, |o| o.stats.compact_ranges += 1);
                        let _ = call("compact_range", || db.compact_range(s.as_deref()..e.as_deref()));
                    }
                    Op::Flush => {
                        with_out(out, |o| o.stats.flushes += 1);
                        let _ = call("flush", || db.verif_flush());
                    }
                    Op::Quiesce => {
                        let _ = call("quiesce", || db.verif_wait_quiescent());
                    }
                    _ => {}
                }
                let _ = i;
            }
            for h in hs {
                let _ = h.join();
            }
        }
    }

    // history checks
    if healthy {
        let log = log.lock().unwrap();
        let mut per_key: BTreeMap<usize, Vec<RegEvent>> = BTreeMap::new();
        let mut per_key_views: BTreeMap<usize, Vec<RegEvent>> = BTreeMap::new();
        for e in &log.events {
            match &e.kind {
                EvKind::Write(items) => {
                    // later element of the same batch for one key wins
                    let mut last: BTreeMap<usize, Option<u32>> = BTreeMap::new();
                    for (k, v) in items {
                        last.insert(*k, *v);
                    }
                    for (k, v) in last {
                        per_key.entry(k).or_default().push(RegEvent { inv: e.inv, ret: e.ret, op: RegOp::Write(v), who: (e.client, e.idx) });
                    }
                }
                EvKind::Read(k, v) => per_key.entry(*k).or_default().push(RegEvent { inv: e.inv, ret: e.ret, op: RegOp::Read(*v), who: (e.client, e.idx) }),
                EvKind::ViewRead(k, v) => per_key_views.entry(*k).or_default().push(RegEvent { inv: e.inv, ret: e.ret, op: RegOp::Read(*v), who: (e.client, e.idx) }),
            }
        }
        let budget = case.params.get("lin_budget").copied().unwrap_or(400_000) as usize;
        for k in 0..nkeys {
            let mut evs = per_key.remove(&k).unwrap_or_default();
            if let Some(fs_) = &final_state {
                // the final quiesced state must be explained by the same order
                let v = fs_.get(&plan.keys[k]).and_then(|v| tag_of(v));
                evs.push(RegEvent { inv: u64::MAX - 1, ret: u64::MAX, op: RegOp::Read(v), who: (usize::MAX, usize::MAX) });
            }
            if evs.is_empty() {
                continue;
            }
            let initial = model.get(&k).copied().flatten();
            let views = per_key_views.remove(&k).unwrap_or_default();
            match check_register(initial, &evs, budget) {
                LinResult::Ok => {
                    with_out(out, |o| o.stats.lin_checked += 1);
                    if !views.is_empty() {
                        // the same history plus what snapshots and iterators showed for this key,
                        // each as a read inside the call that created the view
                        let mut all = evs.clone();
                        all.extend(views.iter().cloned());
                        match check_register(initial, &all, budget) {
                            LinResult::Ok => with_out(out, |o| o.stats.bump("view_histories_checked", 1)),
                            LinResult::Unchecked => with_out(out, |o| o.stats.bump("view_histories_unchecked", 1)),
                            LinResult::Violation(d) => {
                                let mut sorted = all.clone();
                                sorted.sort_by_key(|e| e.inv);
                                let hist: Vec<String> = sorted.iter().take(48).map(|e| format!("c{}#{} {:?} [{}..{}]", e.who.0 as i64, e.who.1 as i64, e.op, e.inv, if e.ret == u64::MAX { 0 } else { e.ret })).collect();
                                let views_s: Vec<String> = views.iter().map(|e| format!("c{}#{} {:?} [{}..{}]", e.who.0, e.who.1, e.op, e.inv, e.ret)).collect();
                                push_finding(out, Finding::new(&["C03", "C05"], "view-not-at-one-instant", "", format!("key {} (initial {:?}): the gets and writes alone are linearizable, but not together with what a snapshot / iterator showed for the key, taken as a read inside the call that created it ({}): {} | history: {}", show_key(&plan.keys[k]), initial, views_s.join(", "), d, hist.join("; ")), None));
                                break;
                            }
                        }
                    }
                }
                LinResult::Unchecked => with_out(out, |o| o.stats.lin_unchecked += 1),
                LinResult::Violation(d) => {
                    with_out(out, |o| o.stats.lin_checked += 1);
                    let class = if d.starts_with("phantom") {
                        "phantom-read"
                    } else if d.starts_with("read from the future") {
                        "future-read"
                    } else {
                        "not-linearizable"
                    };
                    let mut sorted = evs.clone();
                    sorted.sort_by_key(|e| e.inv);
                    let hist: Vec<String> = sorted.iter().take(48).map(|e| format!("c{}#{} {:?} [{}..{}]", e.who.0 as i64, e.who.1 as i64, e.op, e.inv, if e.ret == u64::MAX { 0 } else { e.ret })).collect();
                    push_finding(out, Finding::new(&["C05"], class, "", format!("key {} (initial {:?}): {} | history: {}", show_key(&plan.keys[k]), initial, d, hist.join("; ")), None));
                    break;
                }
            }
        }
        // C11: a table pinned by a live iterator must not be removed while the iterator lives
        if !log.pins.is_empty() {
            for op in fs.mut_log() {
                if let MutOp::Remove { path } = &op.op {
                    if classify(path) == FileClass::Table {
                        let num: Option<u64> = path.file_stem().and_then(|s| s.to_str()).and_then(|s| s.parse().ok());
                        if let Some(n) = num {
                            if let Some((s, e, _)) = log.pins.iter().find(|(s, e, set)| op.seq > *s && op.seq < *e && set.contains(&n)) {
                                push_finding(out, Finding::new(&["C11"], "live-file-removed", "table", format!("table {} was removed at event {} while an iterator created at event {} (released at {}) still pinned the version containing it", n, op.seq, s, e), None));
                                break;
                            }
                        }
                    }
                }
            }
            with_out(out, |o| o.stats.bump("iterator_pins_tracked", log.pins.len() as u64));
        }
        // group commit probe: fewer WAL appends than acknowledged writes
        let wal_writes = fs.calls().iter().filter(|c| c.class == FileClass::Wal && c.kind == crate::simfs::CallKind::Write).count();
        let setup_writes = plan.ops.iter().filter(|o| matches!(o, Op::Put { .. } | Op::Delete { .. } | Op::Batch { .. })).count();
        let acked = log.events.iter().filter(|e| matches!(e.kind, EvKind::Write(_))).count();
        if acked > 0 && wal_writes < acked + setup_writes {
            with_out(out, |o| o.stats.probe("group_commit_merged_writers"));
        }
    }

    // final LSM shape (files per level), for the coverage signature
    if healthy && !rt::is_poisoned() {
        if let Called::Ok(shape) = call("shape", || db.verif_shape()) {
            let mut per_level = vec![0usize; 7];
            for f in &shape.files {
                per_level[f.level] += 1;
            }
            with_out(out, |o| {
                for (l, n) in per_level.iter().enumerate() {
                    if *n > 0 && l > o.stats.max_level {
                        o.stats.max_level = l;
                    }
                }
                if per_level[0] >= 4 && per_level[1] >= 2 {
                    o.stats.probe("l0_ge4_over_l1_ge2");
                }
                o.stats.shapes.push(per_level);
            });
        }
    }

    // close: whichever task holds the last Arc drops the DB; here it is the main task, possibly
    // while background work is still in flight (no quiesce in some runs)
    let completed = healthy && !rt::is_poisoned();
    match Arc::try_unwrap(db) {
        Ok(db) => {
            // optionally line the close up with a point inside the background thread
            if let (Some(m), Some(n)) = (case.params.get("close_align_mask"), case.params.get("close_align_nth")) {
                rt::align_request(*m as u16, *n as u32);
                with_out(out, |o| o.stats.bump("close_align_requests", 1));
            }
            if completed && db.verif_shape().background_scheduled {
                with_out(out, |o| o.stats.probe("close_while_background_work_scheduled"));
            }
            let _ = call("drop", move || drop(db));
        }
        Err(db) => {
            // a client leaked its handle (only after a panic); do not run Drop twice
            std::mem::forget(db);
        }
    }
    fold_fs_stats(&fs, out);
    out.lock().unwrap().completed = completed;
}
