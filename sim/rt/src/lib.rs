//! Verification runtime linked into RainDB only under `--cfg raindb_verif`.
//!
//! It owns the seams RainDB does not already have: thread spawn/join/sleep and the mpsc task
//! channel (re-exported from shuttle so the simulator's scheduler decides every interleaving),
//! explicit scheduling points, per-run tuning knobs, reach probes and a panic registry.
//!
//! All state is thread-local: a simulated execution runs entirely on one OS thread (its tasks are
//! coroutines), and several executions run in parallel on different OS threads without sharing
//! anything.

use std::any::Any;
use std::cell::{Cell, RefCell};
use std::collections::BTreeMap;

pub use shuttle::sync::mpsc;

/// Why a task reached a scheduling point. The scheduler reads this to bias `Freeze` victims.
#[derive(Clone, Copy, Debug, PartialEq, Eq)]
#[repr(u8)]
pub enum YieldKind {
    /// Blocking primitive or anything unclassified.
    Other = 0,
    /// The database mutex has just been released by `MutexGuard::unlocked_fair`.
    UnlockedEnter = 1,
    /// The closure of `unlocked_fair` finished; the mutex is about to be re-acquired.
    UnlockedExit = 2,
    /// A simulated filesystem call is about to execute.
    Fs = 3,
    /// An explicit `sched_point()` hook inside RainDB (H4).
    Hook = 4,
    /// `thread::sleep`.
    Sleep = 5,
    /// Harness-issued yield (between client operations).
    Client = 6,
    /// A mutex guard is being dropped (the moment a thread lets go of a lock without entering an
    /// `unlocked_fair` section: the end of a critical section).
    GuardDrop = 7,
    /// The guard of the database mutex (`Mutex<GuardedDbFields>`) is being dropped: the thread stops
    /// holding the one lock every property about concurrency is stated relative to.
    DbGuardDrop = 8,
}

/// A client asks the scheduler to line the start of its next operation up with a point another
/// task reaches: the caller is held back until some other task has reached its `nth` scheduling
/// point of a kind in `mask` (bit k = `YieldKind` k), that task is then parked there and the caller
/// runs until it blocks or finishes. If everybody else blocks first the request is dropped.
#[derive(Clone, Copy, Debug, PartialEq, Eq)]
pub struct AlignReq {
    pub caller: usize,
    pub mask: u16,
    pub nth: u32,
}

#[derive(Clone, Debug)]
pub struct PanicRecord {
    pub task: usize,
    pub thread_name: String,
    pub message: String,
    pub location: String,
    /// Value of the global event counter when the panic happened.
    pub seq: u64,
}

/// Per-execution context. Installed by the harness before an execution starts and taken back
/// afterwards.
#[derive(Default, Debug)]
pub struct RunCtx {
    pub seq: u64,
    pub knobs: BTreeMap<String, i64>,
    pub probes: BTreeMap<&'static str, u64>,
    pub panics: Vec<PanicRecord>,
    pub sleeps: u64,
    pub yields: [u64; 16],
    /// Set by the harness when the run's verdict is already decided and clients should stop.
    pub poisoned: bool,
    /// Number of threads spawned through this runtime so far (shuttle task ids are handed out
    /// sequentially: main = 0, then one per spawn).
    pub spawned: u64,
    /// shuttle task id -> ordinal of the spawn call that created it (recorded by the new task
    /// itself when it starts; the ordinal is taken at the spawn call)
    pub spawn_ordinal: BTreeMap<usize, u64>,
    /// shuttle task id -> (task id of the spawner, event sequence number at the spawn call)
    pub spawn_parent: BTreeMap<usize, (usize, u64)>,
}

thread_local! {
    /// Bumped by the simulator's scheduler at every step; a watchdog on another OS thread reads it
    /// to tell a run that makes progress from code under test spinning without ever yielding.
    static PROGRESS: std::sync::Arc<std::sync::atomic::AtomicU64> = std::sync::Arc::new(std::sync::atomic::AtomicU64::new(0));
    static CTX: RefCell<RunCtx> = RefCell::new(RunCtx::default());
    static LAST_YIELD: Cell<u8> = const { Cell::new(0) };
    static PANICKING_TASK: Cell<Option<usize>> = const { Cell::new(None) };
    static SCHEDULED_TASK: Cell<Option<usize>> = const { Cell::new(None) };
    static LAST_PANIC: RefCell<Option<(String, String)>> = const { RefCell::new(None) };
    static ALIGN_REQ: Cell<Option<AlignReq>> = const { Cell::new(None) };
}

pub fn install(ctx: RunCtx) {
    CTX.with(|c| *c.borrow_mut() = ctx);
    LAST_YIELD.with(|c| c.set(0));
    PANICKING_TASK.with(|c| c.set(None));
    SCHEDULED_TASK.with(|c| c.set(None));
    LAST_PANIC.with(|c| *c.borrow_mut() = None);
    ALIGN_REQ.with(|c| c.set(None));
}

/// See [`AlignReq`]. A scheduling point of its own, so the scheduler sees the request at once.
pub fn align_request(mask: u16, nth: u32) {
    if std::thread::panicking() || mask == 0 || nth == 0 {
        return;
    }
    ALIGN_REQ.with(|c| c.set(Some(AlignReq { caller: current_task(), mask, nth })));
    sched_point(YieldKind::Client);
}

pub fn take_align_request() -> Option<AlignReq> {
    ALIGN_REQ.with(|c| c.take())
}

/// Classify the scheduling point the calling task is about to reach inside a primitive (no switch).
#[inline]
pub fn note_yield(kind: YieldKind) {
    if !std::thread::panicking() {
        LAST_YIELD.with(|c| c.set(kind as u8));
        with_ctx(|c| c.yields[kind as usize] += 1);
    }
}

pub fn take() -> RunCtx {
    CTX.with(|c| std::mem::take(&mut *c.borrow_mut()))
}

pub fn with_ctx<R>(f: impl FnOnce(&mut RunCtx) -> R) -> R {
    CTX.with(|c| f(&mut c.borrow_mut()))
}

/// Next value of the global event sequence counter (the simulation's logical clock).
pub fn next_seq() -> u64 {
    with_ctx(|c| {
        c.seq += 1;
        c.seq
    })
}

pub fn current_seq() -> u64 {
    with_ctx(|c| c.seq)
}

/// The kind of the scheduling point the current task reached last; reset to `Other` on read.
pub fn take_last_yield() -> u8 {
    LAST_YIELD.with(|c| c.replace(0))
}

/// Called by the simulator's scheduler with every choice it makes, so that the panic hook knows
/// the running task without asking shuttle (whose execution state may be borrowed when a panic is
/// raised inside the scheduler or shuttle itself; asking then would abort the process).
pub fn set_scheduled_task(t: Option<usize>) {
    SCHEDULED_TASK.with(|c| c.set(t));
}

pub fn scheduled_task() -> Option<usize> {
    SCHEDULED_TASK.with(|c| c.get())
}

/// The progress counter of the calling OS thread.
pub fn progress_handle() -> std::sync::Arc<std::sync::atomic::AtomicU64> {
    PROGRESS.with(|p| std::sync::Arc::clone(p))
}

#[inline]
pub fn bump_progress() {
    PROGRESS.with(|p| p.fetch_add(1, std::sync::atomic::Ordering::Relaxed));
}

pub fn panicking_task() -> Option<usize> {
    PANICKING_TASK.with(|c| c.get())
}

pub fn spawned_count() -> u64 {
    with_ctx(|c| c.spawned)
}

/// (spawner task id, event sequence at the spawn call) of `task`.
pub fn spawn_parent_of(task: usize) -> Option<(usize, u64)> {
    with_ctx(|c| c.spawn_parent.get(&task).copied())
}

/// Ordinal of the spawn call that created `task` (None for the main task or a task that has not
/// started running yet).
pub fn spawn_ordinal_of(task: usize) -> Option<u64> {
    with_ctx(|c| c.spawn_ordinal.get(&task).copied())
}

pub fn is_poisoned() -> bool {
    with_ctx(|c| c.poisoned)
}

pub fn set_poisoned() {
    with_ctx(|c| c.poisoned = true)
}

/// A plain context switch (not a yield hint, which would skew PCT priorities).
#[inline]
pub fn sched_point(kind: YieldKind) {
    if std::thread::panicking() {
        return;
    }
    LAST_YIELD.with(|c| c.set(kind as u8));
    with_ctx(|c| c.yields[kind as usize] += 1);
    shuttle::thread::sleep(std::time::Duration::ZERO);
}

/// Explicit scheduling point for windows inside RainDB that contain no lock operation (H4).
#[inline]
pub fn hook_point() {
    sched_point(YieldKind::Hook);
}

/// Tuning knob (H3): the harness may override hard-coded constants per run.
pub fn knob(name: &str, default: usize) -> usize {
    with_ctx(|c| c.knobs.get(name).map(|v| *v as usize)).unwrap_or(default)
}

pub fn knob_f64(name: &str, default: f64) -> f64 {
    with_ctx(|c| c.knobs.get(name).map(|v| *v as f64)).unwrap_or(default)
}

/// Reach probe: counts how often a rare condition was hit in this run.
#[inline]
pub fn probe(id: &'static str) {
    with_ctx(|c| *c.probes.entry(id).or_insert(0) += 1);
}

pub fn current_task() -> usize {
    shuttle::current::get_current_task().map(usize::from).unwrap_or(usize::MAX)
}

fn payload_message(payload: &(dyn Any + Send)) -> String {
    if let Some(s) = payload.downcast_ref::<&'static str>() {
        (*s).to_string()
    } else if let Some(s) = payload.downcast_ref::<String>() {
        s.clone()
    } else {
        "<non-string panic payload>".to_string()
    }
}

/// Record a caught panic of a RainDB thread or client call in the registry.
pub fn record_panic(thread_name: &str, payload: &(dyn Any + Send)) {
    let (msg, loc) = LAST_PANIC
        .with(|c| c.borrow_mut().take())
        .unwrap_or_else(|| (payload_message(payload), "<unknown>".to_string()));
    let task = current_task();
    with_ctx(|c| {
        let seq = c.seq;
        c.panics.push(PanicRecord { task, thread_name: thread_name.to_string(), message: msg, location: loc, seq });
    });
    PANICKING_TASK.with(|c| c.set(None));
}

/// Call after `catch_unwind` returned, whether or not a panic was caught.
pub fn unwind_finished() {
    PANICKING_TASK.with(|c| c.set(None));
}

/// Install a process-wide panic hook that records (message, location) for the registry, marks the
/// panicking task so the scheduler lets it finish unwinding before anything else runs, and prints
/// nothing unless `RAINSIM_VERBOSE_PANIC` is set. Must be called after shuttle installed its own
/// hook (i.e. after one warm-up execution), so that this hook replaces it.
pub fn install_panic_hook() {
    let verbose = std::env::var_os("RAINSIM_VERBOSE_PANIC").is_some();
    std::panic::set_hook(Box::new(move |info| {
        let msg = payload_message(info.payload());
        let loc = info
            .location()
            .map(|l| format!("{}:{}", l.file(), l.line()))
            .unwrap_or_else(|| "<unknown>".to_string());
        let task = scheduled_task();
        let in_shuttle = loc.contains("/shuttle-") || loc.contains("rainsim/src/sched.rs");
        if verbose {
            eprintln!("[rainsim] panic in task {:?}: {} at {}", task, msg, loc);
        }
        LAST_PANIC.with(|c| {
            let mut c = c.borrow_mut();
            // keep the first panic of an unwinding sequence
            if c.is_none() {
                *c = Some((msg, loc));
            }
        });
        // A panic raised by shuttle itself (deadlock, step bound) or by the scheduler is not a
        // panic of the task that ran last.
        if let (Some(t), false) = (task, in_shuttle) {
            PANICKING_TASK.with(|c| c.set(Some(t)));
        }
    }));
}

pub fn clear_last_panic() {
    LAST_PANIC.with(|c| *c.borrow_mut() = None);
}

pub fn peek_last_panic() -> Option<(String, String)> {
    LAST_PANIC.with(|c| c.borrow().clone())
}

pub mod thread {
    //! `std::thread` surface used by RainDB, on shuttle tasks.
    use std::panic::{catch_unwind, AssertUnwindSafe};
    use std::time::Duration;

    pub use shuttle::thread::{current, yield_now, Thread, ThreadId};

    pub struct JoinHandle<T> {
        inner: shuttle::thread::JoinHandle<std::thread::Result<T>>,
    }

    impl<T> JoinHandle<T> {
        pub fn join(self) -> std::thread::Result<T> {
            match self.inner.join() {
                Ok(r) => r,
                Err(e) => Err(e),
            }
        }

        pub fn thread(&self) -> &Thread {
            self.inner.thread()
        }
    }

    impl<T> std::fmt::Debug for JoinHandle<T> {
        fn fmt(&self, f: &mut std::fmt::Formatter<'_>) -> std::fmt::Result {
            f.write_str("JoinHandle { .. }")
        }
    }

    #[derive(Debug)]
    pub struct Builder {
        inner: shuttle::thread::Builder,
        name: Option<String>,
    }

    impl Default for Builder {
        fn default() -> Self {
            Self::new()
        }
    }

    impl Builder {
        pub fn new() -> Self {
            Builder { inner: shuttle::thread::Builder::new(), name: None }
        }

        pub fn name(mut self, name: String) -> Self {
            self.name = Some(name.clone());
            self.inner = self.inner.name(name);
            self
        }

        pub fn stack_size(mut self, size: usize) -> Self {
            self.inner = self.inner.stack_size(size);
            self
        }

        /// Spawn a simulated thread. A panic inside it is caught, recorded in the panic registry
        /// and surfaced through `join()` exactly as `std::thread` would.
        pub fn spawn<F, T>(self, f: F) -> std::io::Result<JoinHandle<T>>
        where
            F: FnOnce() -> T + Send + 'static,
            T: Send + 'static,
        {
            let name = self.name.clone().unwrap_or_else(|| "<unnamed>".to_string());
            let parent = crate::current_task();
            let (ordinal, spawn_seq) = crate::with_ctx(|c| {
                c.spawned += 1;
                (c.spawned, c.seq)
            });
            let inner = self.inner.spawn(move || {
                crate::with_ctx(|c| {
                    c.spawn_ordinal.insert(crate::current_task(), ordinal);
                    c.spawn_parent.insert(crate::current_task(), (parent, spawn_seq));
                });
                let r = catch_unwind(AssertUnwindSafe(f));
                if let Err(p) = &r {
                    crate::record_panic(&name, p.as_ref());
                }
                crate::unwind_finished();
                r
            })?;
            Ok(JoinHandle { inner })
        }
    }

    pub fn spawn<F, T>(f: F) -> JoinHandle<T>
    where
        F: FnOnce() -> T + Send + 'static,
        T: Send + 'static,
    {
        Builder::new().spawn(f).expect("spawn")
    }

    pub fn sleep(_dur: Duration) {
        crate::with_ctx(|c| c.sleeps += 1);
        crate::sched_point(crate::YieldKind::Sleep);
    }
}
