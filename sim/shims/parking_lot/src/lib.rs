//! parking_lot's API surface as used by RainDB, implemented on shuttle primitives so that every
//! lock operation is a scheduling point owned by the simulator.
use shuttle::sync as ss;
use std::cell::UnsafeCell;
use std::fmt;
use std::ops::{Deref, DerefMut};
use raindb_verif_rt::{sched_point, YieldKind};

fn unpoison<G>(r: Result<G, std::sync::PoisonError<G>>) -> G {
    match r {
        Ok(g) => g,
        Err(e) => e.into_inner(),
    }
}

// ---------------------------------------------------------------- Mutex
pub struct Mutex<T: ?Sized> {
    inner: ss::Mutex<T>,
}

pub struct MutexGuard<'a, T: ?Sized> {
    mutex: &'a Mutex<T>,
    guard: Option<ss::MutexGuard<'a, T>>,
}

impl<T> Mutex<T> {
    pub fn new(value: T) -> Self {
        Mutex { inner: ss::Mutex::new(value) }
    }
}

impl<T: ?Sized> Mutex<T> {
    pub fn lock(&self) -> MutexGuard<'_, T> {
        let guard = unpoison(self.inner.lock());
        MutexGuard { mutex: self, guard: Some(guard) }
    }
}

impl<T: ?Sized> fmt::Debug for Mutex<T> {
    fn fmt(&self, f: &mut fmt::Formatter<'_>) -> fmt::Result {
        f.write_str("Mutex { .. }")
    }
}

impl<'a, T: ?Sized> MutexGuard<'a, T> {
    pub fn unlocked_fair<F, U>(s: &mut Self, f: F) -> U
    where
        F: FnOnce() -> U,
    {
        drop(s.guard.take());
        // Every "mutex released around a slow section" window is an explicit scheduling point.
        sched_point(YieldKind::UnlockedEnter);
        let result = f();
        sched_point(YieldKind::UnlockedExit);
        s.guard = Some(unpoison(s.mutex.inner.lock()));
        result
    }

    pub fn unlocked<F, U>(s: &mut Self, f: F) -> U
    where
        F: FnOnce() -> U,
    {
        Self::unlocked_fair(s, f)
    }

    pub fn unlock_fair(s: Self) {
        drop(s);
    }
}

impl<T: ?Sized> Drop for MutexGuard<'_, T> {
    fn drop(&mut self) {
        // shuttle's own yield at an unlock comes BEFORE the release (the mutex is still held there),
        // and the next one only at the task's next synchronisation operation: whatever the thread
        // does in between (read an atomic flag, look at a local queue) would be glued to the
        // critical section. A real thread can be preempted right after the release, so this is a
        // scheduling point of its own, classified for the scheduler.
        if let Some(g) = self.guard.take() {
            drop(g);
            let db = std::any::type_name::<T>().ends_with("GuardedDbFields");
            sched_point(if db { YieldKind::DbGuardDrop } else { YieldKind::GuardDrop });
        }
    }
}

impl<T: ?Sized> Deref for MutexGuard<'_, T> {
    type Target = T;
    fn deref(&self) -> &T {
        self.guard.as_ref().expect("guard is unlocked")
    }
}

impl<T: ?Sized> DerefMut for MutexGuard<'_, T> {
    fn deref_mut(&mut self) -> &mut T {
        self.guard.as_mut().expect("guard is unlocked")
    }
}

// ---------------------------------------------------------------- Condvar
pub struct Condvar {
    inner: ss::Condvar,
}

impl Condvar {
    pub fn new() -> Self {
        Condvar { inner: ss::Condvar::new() }
    }

    pub fn wait<T>(&self, guard: &mut MutexGuard<'_, T>) {
        let g = guard.guard.take().expect("guard is unlocked");
        let g = unpoison(self.inner.wait(g));
        guard.guard = Some(g);
    }

    pub fn notify_one(&self) -> bool {
        self.inner.notify_one();
        true
    }

    pub fn notify_all(&self) -> usize {
        self.inner.notify_all();
        0
    }
}

impl Default for Condvar {
    fn default() -> Self {
        Self::new()
    }
}

impl fmt::Debug for Condvar {
    fn fmt(&self, f: &mut fmt::Formatter<'_>) -> fmt::Result {
        f.write_str("Condvar { .. }")
    }
}

// ---------------------------------------------------------------- RwLock
struct RwState {
    readers: usize,
    writer: bool,
    writers_waiting: usize,
}

pub struct RwLock<T: ?Sized> {
    state: ss::Mutex<RwState>,
    cv: ss::Condvar,
    data: UnsafeCell<T>,
}

unsafe impl<T: ?Sized + Send> Send for RwLock<T> {}
unsafe impl<T: ?Sized + Send + Sync> Sync for RwLock<T> {}

trait RawRw {
    fn unlock_read(&self);
}

impl<T> RwLock<T> {
    pub fn new(value: T) -> Self {
        RwLock {
            state: ss::Mutex::new(RwState { readers: 0, writer: false, writers_waiting: 0 }),
            cv: ss::Condvar::new(),
            data: UnsafeCell::new(value),
        }
    }
}

impl<T: ?Sized> RwLock<T> {
    pub fn read(&self) -> RwLockReadGuard<'_, T> {
        let mut st = unpoison(self.state.lock());
        // parking_lot policy: a reader blocks while a writer holds the lock or is waiting for it.
        while st.writer || st.writers_waiting > 0 {
            st = unpoison(self.cv.wait(st));
        }
        st.readers += 1;
        drop(st);
        RwLockReadGuard { lock: self }
    }

    pub fn write(&self) -> RwLockWriteGuard<'_, T> {
        let mut st = unpoison(self.state.lock());
        st.writers_waiting += 1;
        while st.writer || st.readers > 0 {
            st = unpoison(self.cv.wait(st));
        }
        st.writers_waiting -= 1;
        st.writer = true;
        drop(st);
        RwLockWriteGuard { lock: self }
    }

    fn release_read(&self) {
        let mut st = unpoison(self.state.lock());
        st.readers -= 1;
        let wake = st.readers == 0;
        drop(st);
        if wake {
            self.cv.notify_all();
        }
    }

    fn release_write(&self) {
        let mut st = unpoison(self.state.lock());
        st.writer = false;
        drop(st);
        self.cv.notify_all();
        // a scheduling point after the release, as for the mutex
        sched_point(YieldKind::GuardDrop);
    }
}

impl<T: ?Sized> RawRw for RwLock<T> {
    fn unlock_read(&self) {
        self.release_read();
    }
}

impl<T: ?Sized> fmt::Debug for RwLock<T> {
    fn fmt(&self, f: &mut fmt::Formatter<'_>) -> fmt::Result {
        f.write_str("RwLock { .. }")
    }
}

pub struct RwLockReadGuard<'a, T: ?Sized> {
    lock: &'a RwLock<T>,
}

impl<'a, T: 'a> RwLockReadGuard<'a, T> {
    pub fn map<U: ?Sized, F>(s: Self, f: F) -> MappedRwLockReadGuard<'a, U>
    where
        F: FnOnce(&T) -> &U,
    {
        let lock: &'a RwLock<T> = s.lock;
        std::mem::forget(s);
        let data: *const U = f(unsafe { &*lock.data.get() });
        MappedRwLockReadGuard { raw: lock, data, _marker: std::marker::PhantomData }
    }
}

impl<T: ?Sized> Deref for RwLockReadGuard<'_, T> {
    type Target = T;
    fn deref(&self) -> &T {
        unsafe { &*self.lock.data.get() }
    }
}

impl<T: ?Sized> Drop for RwLockReadGuard<'_, T> {
    fn drop(&mut self) {
        self.lock.release_read();
    }
}

pub struct RwLockWriteGuard<'a, T: ?Sized> {
    lock: &'a RwLock<T>,
}

impl<T: ?Sized> Deref for RwLockWriteGuard<'_, T> {
    type Target = T;
    fn deref(&self) -> &T {
        unsafe { &*self.lock.data.get() }
    }
}

impl<T: ?Sized> DerefMut for RwLockWriteGuard<'_, T> {
    fn deref_mut(&mut self) -> &mut T {
        unsafe { &mut *self.lock.data.get() }
    }
}

impl<T: ?Sized> Drop for RwLockWriteGuard<'_, T> {
    fn drop(&mut self) {
        self.lock.release_write();
    }
}

pub struct MappedRwLockReadGuard<'a, U: ?Sized> {
    raw: &'a dyn RawRw,
    data: *const U,
    _marker: std::marker::PhantomData<&'a U>,
}

impl<U: ?Sized> Deref for MappedRwLockReadGuard<'_, U> {
    type Target = U;
    fn deref(&self) -> &U {
        unsafe { &*self.data }
    }
}

impl<U: ?Sized> Drop for MappedRwLockReadGuard<'_, U> {
    fn drop(&mut self) {
        self.raw.unlock_read();
    }
}

#[cfg(test)]
mod tests {
    //! The shim must provide mutual exclusion, condvar wake-ups without losing one, a working
    //! `unlocked_fair`, and parking_lot's reader/writer policy - checked under shuttle itself.
    use super::*;
    use std::sync::atomic::{AtomicUsize, Ordering};
    use std::sync::Arc;

    fn with_ctx<F: Fn() + Send + Sync + 'static>(f: F, iterations: usize) {
        shuttle::check_random(
            move || {
                raindb_verif_rt::install(raindb_verif_rt::RunCtx::default());
                f();
            },
            iterations,
        );
    }

    #[test]
    fn mutex_gives_mutual_exclusion() {
        with_ctx(
            || {
                let m = Arc::new(Mutex::new(0usize));
                let inside = Arc::new(AtomicUsize::new(0));
                let mut hs = vec![];
                for _ in 0..3 {
                    let (m, inside) = (Arc::clone(&m), Arc::clone(&inside));
                    hs.push(shuttle::thread::spawn(move || {
                        for _ in 0..3 {
                            let mut g = m.lock();
                            assert_eq!(inside.fetch_add(1, Ordering::SeqCst), 0, "two tasks inside the critical section");
                            shuttle::thread::yield_now();
                            *g += 1;
                            inside.fetch_sub(1, Ordering::SeqCst);
                        }
                    }));
                }
                for h in hs {
                    h.join().unwrap();
                }
                assert_eq!(*m.lock(), 9);
            },
            300,
        );
    }

    /// Another task can run between a mutex release and whatever the releasing task does next
    /// (shuttle's own yield at an unlock comes before the release, so without the shim's extra
    /// scheduling point this interleaving does not exist).
    #[test]
    fn another_task_can_run_right_after_a_release() {
        use std::sync::atomic::AtomicBool;
        let hits = Arc::new(AtomicUsize::new(0));
        let hits2 = Arc::clone(&hits);
        with_ctx(
            move || {
                let m = Arc::new(Mutex::new(()));
                let flag = Arc::new(AtomicBool::new(false));
                let (m2, flag2) = (Arc::clone(&m), Arc::clone(&flag));
                let h = shuttle::thread::spawn(move || {
                    let g = m2.lock();
                    flag2.store(true, Ordering::SeqCst);
                    drop(g);
                });
                let g = m.lock();
                let held_first = !flag.load(Ordering::SeqCst);
                drop(g);
                // no synchronisation operation between the release and this load
                let seen_after_release = flag.load(Ordering::SeqCst);
                if held_first && seen_after_release {
                    hits2.fetch_add(1, Ordering::SeqCst);
                }
                h.join().unwrap();
            },
            2000,
        );
        assert!(hits.load(Ordering::SeqCst) > 0, "no execution ran the other task between the release and the next instruction");
    }

    #[test]
    fn unlocked_fair_really_unlocks_and_relocks() {
        with_ctx(
            || {
                let m = Arc::new(Mutex::new(0usize));
                let m2 = Arc::clone(&m);
                let mut g = m.lock();
                let h = shuttle::thread::spawn(move || {
                    *m2.lock() += 10;
                });
                // the other task can only finish if the lock is released inside unlocked_fair
                MutexGuard::unlocked_fair(&mut g, || {
                    h.join().unwrap();
                });
                assert_eq!(*g, 10);
                *g += 1;
                drop(g);
                assert_eq!(*m.lock(), 11);
            },
            300,
        );
    }

    #[test]
    fn condvar_does_not_lose_a_wakeup() {
        with_ctx(
            || {
                let pair = Arc::new((Mutex::new(false), Condvar::new()));
                let p2 = Arc::clone(&pair);
                let h = shuttle::thread::spawn(move || {
                    let (m, cv) = &*p2;
                    *m.lock() = true;
                    cv.notify_all();
                });
                let (m, cv) = &*pair;
                let mut g = m.lock();
                while !*g {
                    cv.wait(&mut g);
                }
                drop(g);
                h.join().unwrap();
            },
            500,
        );
    }

    #[test]
    fn rwlock_allows_readers_together_and_excludes_writers() {
        with_ctx(
            || {
                let l = Arc::new(RwLock::new(0usize));
                let writers_inside = Arc::new(AtomicUsize::new(0));
                let mut hs = vec![];
                for i in 0..3 {
                    let (l, w) = (Arc::clone(&l), Arc::clone(&writers_inside));
                    hs.push(shuttle::thread::spawn(move || {
                        if i == 0 {
                            let mut g = l.write();
                            assert_eq!(w.fetch_add(1, Ordering::SeqCst), 0);
                            shuttle::thread::yield_now();
                            *g += 1;
                            w.fetch_sub(1, Ordering::SeqCst);
                        } else {
                            let g = l.read();
                            assert_eq!(w.load(Ordering::SeqCst), 0, "reader inside while a writer holds the lock");
                            let _ = *g;
                        }
                    }));
                }
                for h in hs {
                    h.join().unwrap();
                }
                assert_eq!(*l.read(), 1);
            },
            300,
        );
    }
}
